"""C14 - clean() reaches the unique minimal representation without changing the curve."""
import itertools
from fractions import Fraction as F

from ..engine import alphabets as al
from ..engine import lib
from ..engine.bfs import bfs
from ..ref import bspline as rb
from ..ref import space as sp

ID = "C14"
RULE = ("bfs: from each initial curve (every knot vector of the block x control vectors {generic, constant, straight line, a "
        "strided subset of {-1,0,2}^n, 2-D}; polynomial, plus weighted curves for the unchanged/idempotent clauses) every "
        "history of knot_insert([x]) (x in {mid-span, existing knot, 0}) and degree_increase(1) up to depth 2 (3) is executed "
        "on the real curve; in every reached state the clean sequences [clean, clean], and for depth <= 1 also [knot_clean, "
        "knot_clean, degree_clean, degree_clean, clean] and [degree_clean, knot_clean, clean], are run on fresh copies. "
        "Oracle: after every call the curve is the same function (exactly), a repeated call changes nothing, and after "
        "clean() a polynomial curve equals the reference canonical minimal form (largest true piece degree; multiplicity = "
        "degree - continuity order), so all histories of one initial curve end in one state. state = exact curve snapshot; "
        "transition = one insertion/elevation/clean call; non-trivial = distinct (state, sequence) where a clean call changed "
        "the representation")
ASSUMPTIONS = ["on these alphabets an inexact removal has an error far above 1e-9; if a clean call changes the function the exact "
               "deviation is computed and only a deviation above the tolerance bound is a violation",
               "minimality is asserted for polynomial curves only (as stated)"]
SEQS_ALL = (("clean", "clean"), ("clean0",))
SEQS_SHALLOW = (("knot_clean", "knot_clean", "degree_clean", "degree_clean", "clean"), ("degree_clean", "knot_clean", "clean"),
                ("knot_clean0", "degree_clean0", "clean0"), ("degree_clean0", "knot_clean0", "knot_clean0", "clean0"))


def bounds(tier, seed):
    q = tier == "quick"
    return {"pmax": 2 if q else 3, "kmax": 2, "depth": 2 if q else 3, "alphabets": ["K0"] if q else al.tier_alphabets(tier, seed)}


def control_vectors(U, p, n):
    ks = rb.knots_of(U)
    out = [("generic", al.generic_points(n), None)]
    out.append(("constant", [F(3)] * n, None))

    def global_poly(coefs):
        f = rb.PW([(a, b, (tuple(F(c) for c in coefs),), (F(1),)) for a, b in zip(ks[:-1], ks[1:])], True)
        return [x[0] for x in sp.dual_coeffs(f, U, p)]

    if p >= 1:
        out.append(("line", global_poly((-1, 2)), None))
    if p >= 2:
        out.append(("parabola", global_poly((1, -1, 3)), None))
    small = [list(map(F, v)) for v in itertools.product((-1, 0, 2), repeat=n)] if n <= 4 else []
    for v in small[1::max(1, len(small) // 5)][:5]:
        out.append(("small", v, None))
    out.append(("2d", al.generic_points(n, 2), None))
    out.append(("rational", al.generic_points(n), al.generic_weights(n)))
    if n >= 3:
        # very uneven weights: the tolerance test must not be normalised away by the largest weight
        out.append(("rational_uneven", al.generic_points(n), [F(10 ** 6) if i == n // 2 else F(1) for i in range(n)]))
    if p >= 1 and len(ks) > 2:
        # a line with a kink of 1e-6 at the control point in the middle: every interior knot is removable within the default
        # tolerance (squared error ~1e-12) and none is removable exactly - clean(0) must keep them all
        line = global_poly((-1, 2))
        out.append(("almost", [x + (F(1, 10 ** 6) if i == n // 2 else 0) for i, x in enumerate(line)], None))
    return out


def cases(tier, seed):
    b = bounds(tier, seed)
    for K in b["alphabets"]:
        core = K == "K0"
        for p, U in al.knotvectors(K, b["pmax"] if core else 2, b["kmax"]):
            n = len(U) - p - 1
            if (tier == "quick" or not core) and p >= 2 and len(set(U)) > 3:
                continue  # quick (and the other alphabets of the thorough tier): two interior knots up to degree 1, one at degree 2
            # thorough: full depth (3) for the knot vectors of the core alphabet with at most 7 entries, depth 2 elsewhere
            depth = b["depth"] if (tier == "quick" or (core and len(U) <= 7)) else 2
            for i, (lab, P, W) in enumerate(control_vectors(list(U), p, n)):
                yield (K, p, U, i, depth)
            yield (K, p, U, -1, depth)  # float data


def describe(case):
    U = list(case[2])
    n = len(U) - case[1] - 1
    if case[3] < 0:
        return {"knotvector": U, "points": "generic float"}
    lab, P, W = control_vectors(U, case[1], n)[case[3]]
    return {"knotvector": U, "points": lab, "P": P, "W": W, "depth": case[4]}


def cost(case):
    return len(case[2]) * (3 if case[3] >= 0 else 1)


def call_clean(c, name):
    if name == "clean0":
        return lib.outcome(c.clean, 0)  # an explicit zero tolerance: only exact removals may be accepted
    if name == "knot_clean0":
        return lib.outcome(lambda: c.knot_clean(tolerance=0))
    if name == "degree_clean0":
        return lib.outcome(c.degree_clean, 0)
    return lib.outcome(getattr(c, name))


def run_case(case, res):
    K, p, U, idx, depth = case
    U = list(U)
    n = len(U) - p - 1
    if idx < 0:
        return run_float(res, U, p, n)
    lab, P, W = control_vectors(U, p, n)[idx]
    D0 = rb.denote(U, P, W, p)
    poly_curve = W is None
    if poly_curve:
        qmin, Umin, cmin = sp.minimal_form(D0)
        scalar = not isinstance(P[0], tuple)
        minimal = (Umin, [x[0] if scalar else x for x in cmin], None)
    tags0 = dict(points=lab, rational=W is not None)
    finals = set()

    def key(state):
        return lib.tagdeep(state)

    def build(state):
        return lib.mk_curve(*state)

    def run_sequence(state, path, seq):
        c = build(state)
        prev = lib.curve_pw(c)
        for i, name in enumerate(seq):
            res.transition()
            before = lib.snap_curve(c)
            o = call_clean(c, name)
            repeated = i > 0 and seq[i - 1] == name
            tags = dict(call=name, repeated=repeated, **tags0)
            where = f"initial U={U} P={P} W={W}; history {[x[0] for x in path]}; sequence {list(seq[:i + 1])}"
            res.outcome(f"{name}:{'ok' if o[0] == 'ok' else o[1]}")
            if o[0] != "ok":
                res.violation("exception", f"{where}: raised {o[1]}: {o[2]}", exc=o[1], **tags)
                return
            after = lib.snap_curve(c)
            if after != before:
                res.nontriv((key(state), seq[:i + 1]))
                if repeated:
                    res.violation("not_idempotent", f"{where}: the second {name}() changed the curve again: knots {list(c.knotvector)}",
                                  **tags)
            try:
                now = lib.curve_pw(c)
            except Exception as e:  # noqa: BLE001
                res.violation("shape", f"{where}: curve unreadable after {name}: {e!r}", **tags)
                return
            if not now.same(D0):
                if poly_curve and now.is_polynomial():
                    dev = max(D0.sq_dev(now))
                    bound = 0 if name.endswith("0") else 2 * F(1, 10 ** 9) * max(F(1), U[-1] - U[0])
                    if dev > bound:
                        res.violation("curve_changed", f"{where}: {name}() changed the curve (squared deviation {float(dev):.3e}); "
                                      f"knots {list(c.knotvector)} ctrlpoints {c.ctrlpoints}", **tags)
                        return
                    res.outcome("changed_within_tolerance")
                    return
                res.violation("curve_changed", f"{where}: {name}() changed the curve; knots {list(c.knotvector)}", **tags)
                return
            prev = now
            if name in ("clean", "clean0") and poly_curve:
                got = lib.exact_curve(c)
                finals.add(key(got))
                if got != minimal:
                    res.violation("not_minimal", f"{where}: after clean() knots {got[0]} ctrlpoints {got[1]}; minimal form is "
                                  f"{minimal[0]} {minimal[1]}", **tags)
            if not lib.all_exact(c.ctrlpoints) or not lib.all_exact(c.weights):
                res.violation("type", f"{where}: inexact numbers after {name}", **tags)
        res.trace()

    def chk(state, path):
        c = build(state)
        if not lib.curve_pw(c).same(D0):
            res.violation("history_changed_curve", f"initial U={U} P={P}: history {[x[0] for x in path]} changed the curve (C04/C06)", **tags0)
            return
        seqs = SEQS_ALL + (SEQS_SHALLOW if len(path) <= 1 and poly_curve else ())
        if not poly_curve and len(path) > 1:
            return
        for seq in seqs:
            run_sequence(state, path, seq)
        if path and poly_curve:
            # the same history on ONE live object (nothing rebuilt from snapshots), then clean()
            res.transition()
            live = build((U, P, W))
            for name, arg in path:
                lib.outcome(live.degree_increase, 1) if arg is None else lib.outcome(live.knot_insert, list(arg))
            # ("almost" data: the default tolerance may accept inexact removals, so the exact request is made there)
            o = lib.outcome(live.clean, 0) if lab == "almost" else lib.outcome(live.clean)
            if o[0] != "ok" or lib.exact_curve(live) != minimal:
                res.violation("not_minimal", f"initial U={U} P={P}: history {[x[0] for x in path]} on one object, then clean(): "
                              f"{o[:2] if o[0] != 'ok' else lib.exact_curve(live)[:2]}, minimal form is {minimal[:2]}", call="clean",
                              repeated=False, live=True, **tags0)

    def expand(state, path):
        V, Q, WQ = state
        q = rb.degree_of(V)
        ks = rb.knots_of(V)
        menu = [("insert_mid", [ks[0] + (ks[1] - ks[0]) * F(1, 2)])]
        ex = [k for k in ks[1:-1] if rb.mult(V, k) < q + 1]
        if ex:
            menu.append(("insert_existing", [ex[0]]))
        elif ks[0] < 0 < ks[-1] and F(0) not in ks:
            menu.append(("insert_zero", [F(0)]))
        if q < 4:
            menu.append(("elevate", None))
        for name, arg in menu:
            res.transition()
            c = build(state)
            o = lib.outcome(c.degree_increase, 1) if arg is None else lib.outcome(c.knot_insert, arg)
            if o[0] != "ok":
                res.violation("exception", f"initial U={U}: history {list(path)} + {name} raised {o[1]}: {o[2]}", exc=o[1], call=name, **tags0)
                continue
            yield ((name, None if arg is None else tuple(arg)), lib.exact_curve(c))

    bfs([(U, P, W)], key, chk, expand, depth, res)
    if poly_curve and len(finals) > 1:
        res.violation("not_unique", f"initial U={U} P={P}: {len(finals)} distinct final states after clean()", **tags0)
    res.observe((sorted(res.outcomes.items()), len(finals)))


def run_float(res, U, p, n):
    P = al.generic_points(n)
    V = sorted(U + [U[0] + (U[p + 1] - U[0]) * F(1, 2)])
    T = sp.basis_change(U, V, p, p)
    Q = [x[0] for x in sp.apply_matrix(T, [(x,) for x in P])]
    D0 = rb.denote(U, P, None, p)
    for rep in ("float", "npfloat"):
        res.transition()
        c = lib.mk_curve(V, Q, None, rep)
        o = lib.outcome(c.clean)
        tags = dict(call="clean", rep=rep, points="generic")
        res.state((tuple(V), rep))
        res.outcome(f"clean_float:{'ok' if o[0] == 'ok' else o[1]}")
        if o[0] != "ok":
            res.violation("exception", f"U={V} rep={rep}: clean() raised {o[1]}: {o[2]}", exc=o[1], **tags)
            continue
        got = lib.exact_kv(c.knotvector)
        if len(got) != len(U) or any(not lib.close(g, e, 1e-12) for g, e in zip(got, U)):
            res.violation("not_minimal", f"U={V} rep={rep}: after clean() knots {list(c.knotvector)}, expected {U}", **tags)
            continue
        for u in al.params(U, p):
            ov = lib.outcome(c, float(u))
            if ov[0] != "ok" or not lib.close_point(lib.to_point(ov[1]), D0.value(u)):
                res.violation("curve_changed", f"U={V} rep={rep}: value at {u}: {ov[1:]} vs {D0.value(u)}", **tags)
                break
    res.observe(sorted(res.outcomes.items()))
