"""C01 - curve evaluation equals the B-spline / NURBS definition at every parameter."""
from fractions import Fraction as F

from ..engine import alphabets as al
from ..engine import lib
from ..ref import bspline as rb
from ..ref import poly

ID = "C01"
RULE = ("enum: every clamped knot vector of the alphabets (degree x interior subsets x multiplicity patterns) x weights "
        "{None, generic, {1,2,1/3}^n n<=3} x control points {unit vectors, generic scalar, generic 2-D} x "
        "{Fraction, int, float, numpy} x parameters {every knot, ends, p+2 interior points per span, outside}; "
        "a state is one (knot vector, weights, points, representation) configuration; a transition is one evaluation "
        "compared with sum R_i(u) P_i; non-trivial = distinct (knot vector, parameter) pairs whose parameter is a knot "
        "of multiplicity >= 2, the right end, or where >= 2 basis functions are non-zero")
ASSUMPTIONS = ["degrees/knot positions bounded by the listed alphabets", "float comparison 1e-9 relative",
               "a polynomial of degree <= p that agrees at p+2 points of a span is identical on the span"]


def bounds(tier, seed):
    return {"pmax": 3 if tier == "quick" else 5, "kmax": 2 if tier == "quick" else 3,
            "alphabets": al.tier_alphabets(tier, seed)}


def cases(tier, seed):
    b = bounds(tier, seed)
    for p, U in al.knotvectors("K5", 2 if tier == "quick" else 3, 2):
        yield ("K5", p, U)  # far from the origin relative to the spacing
    for K in b["alphabets"]:
        for p, U in al.knotvectors(K, b["pmax"], b["kmax"]):
            if tier == "thorough" and p == 5 and len(set(U)) > 4:
                continue  # p=5 with 3 interior knots: 6^3 patterns x 4 subsets; keep k<=2 at p=5
            yield (K, p, U)


def describe(case):
    return {"alphabet": case[0], "degree": case[1], "knotvector": list(case[2])}


def run_case(case, res):
    K, p, U = case
    U = list(U)
    n = len(U) - p - 1
    prm0 = al.params(U, p, near=True)
    prm = prm0
    outside = [U[0] - 1, U[-1] + F(1, 2)]

    # (a) per-span coefficient table (internal API; skipped, not alarmed, if absent)
    try:
        table = lib.heavy.BasisFunction.speval_matrix(lib.heavy.ImmutableKnotVector(U), p)
        spans = rb.spans_of(U)
        for z, (a, b) in enumerate(spans):
            Np = rb.basis_polys(U, p, a, b)
            sp = rb.span_index(U, p, a)
            for y in range(p + 1):
                i = y + sp - p
                expect = poly.compose_affine(Np[i], b - a, a)
                got = poly.trim([lib.to_frac(c) for c in table[z][y]])
                res.transition()
                if got != expect:
                    res.violation("coef_table", f"U={U} span=[{a},{b}] basis {i}: table {got} != {expect}",
                                  op="speval_matrix", degree=p)
        res.outcome("coef_table_compared")
    except (AttributeError, TypeError, IndexError):
        res.outcome("coef_table_unavailable")

    configs = []
    gen = al.generic_points(n)
    # a float and an int-knot configuration first: evaluation of exact data must not depend on what was evaluated before
    # on numerically equal knots of another number type
    configs.append((gen, None, "float"))
    configs.append((gen, None, "int"))
    gen2 = al.generic_points(n, 2)
    gw = al.generic_weights(n)
    for W in (None, gw):
        for e in al.unit_vectors(n):
            configs.append((e, W, "frac"))
        configs.append((gen, W, "frac"))
        configs.append((gen2, W, "frac"))
    for W in al.small_weight_vectors(n, 3):
        configs.append((gen, W, "frac"))
    configs.append((gen, None, "int"))
    # mixed exact types: Fraction knots and parameters with int control points and int weights (still exact data)
    intw = [1 + (i * 2) % 3 for i in range(n)]
    configs.append((gen, intw, "mixed"))
    configs.append((gen2, intw, "mixed"))
    for rep in ("float", "npfloat"):
        configs.append((gen, None, rep))
        configs.append((gen2, gw, rep))
        configs.append((gen, gw, rep))

    for P, W, rep in configs:
        res.state((U, P, W, rep))
        try:
            c = mk(U, P, W, rep)
        except Exception as e:  # noqa: BLE001
            res.violation("construct", f"Curve({U}, {P}, {W}) [{rep}] raised {type(e).__name__}: {e}", op="construct",
                          rep=rep, exc=type(e).__name__)
            continue
        # exactness is promised for Fraction knots; int knots go through true division and are compared as floats
        exact = rep in ("frac", "mixed")
        if rep in ("float", "npfloat"):
            # floats 1e-10 left and right of every interior knot: the value must be the one of the span the parameter
            # really lies in (matters where the curve jumps)
            near = [lib.to_frac(float(k) + d) for k in rb.knots_of(U)[1:-1] for d in (-1e-10, 1e-10)]
            prm = prm0 + [u for u in near if U[0] < u < U[-1]]
        else:
            prm = prm0
        Uref = U
        if rep in ("float", "npfloat"):
            # the reference works with the exact values of the floats that are actually passed (knots and parameters)
            prm = sorted(set(lib.to_frac(float(u)) for u in prm))
            Uref = [lib.to_frac(float(k)) for k in U]
            prm = [u for u in prm if Uref[0] <= u <= Uref[-1]]
        expect = [rb.value(Uref, P, u, W, p) for u in prm]
        # scalar calls
        for u, ex in zip(prm, expect):
            res.transition()
            out = lib.outcome(c, lib.conv(u, prep(rep)))
            _cmp(res, out, ex, exact, Uref, P, W, rep, u, p, "scalar")
        # one sequence call
        res.transition()
        out = lib.outcome(c, [lib.conv(u, prep(rep)) for u in prm])
        if out[0] != "ok":
            res.violation("exception", f"curve(list) raised {out[1]}: {out[2]} U={U} W={W} rep={rep}", call="sequence",
                          rep=rep, exc=out[1], rational=W is not None)
        else:
            vals = out[1]
            try:
                ln = len(vals)
            except TypeError:
                ln = -1
            if ln != len(prm):
                res.violation("shape", f"sequence of {len(prm)} nodes gave {ln} points U={U}", call="sequence", rep=rep)
            else:
                for u, ex, v in zip(prm, expect, vals):
                    _cmp(res, ("ok", v), ex, exact, U, P, W, rep, u, p, "sequence")
        # the same nodes in decreasing and in zig-zag order (list / tuple): value k belongs to node k
        m = len(prm)
        zig = [k // 2 if k % 2 == 0 else m - 1 - k // 2 for k in range(m)]
        for perm, box in ((list(range(m))[::-1], list), (zig, tuple)):
            res.transition()
            out = lib.outcome(c, box(lib.conv(prm[k], prep(rep)) for k in perm))
            if out[0] != "ok" or len(out[1]) != m:
                res.violation("shape", f"curve(unsorted sequence) gave {out[:2] if out[0] != 'ok' else len(out[1])}; U={U}", call="unsorted",
                              rep=rep)
            else:
                for k, v in zip(perm, out[1]):
                    _cmp(res, ("ok", v), expect[k], exact, U, P, W, rep, prm[k], p, "unsorted")
        # numpy array of nodes (float representations): same values, same order
        if rep == "npfloat":
            res.transition()
            out = lib.outcome(c, lib.np.array([float(u) for u in prm], dtype="float64"))
            if out[0] != "ok" or len(out[1]) != len(prm):
                res.violation("shape", f"curve(np.array of {len(prm)} nodes) gave {out[:2] if out[0] != 'ok' else len(out[1])}; U={U}",
                              call="nparray", rep=rep)
            else:
                for u, ex, v in zip(prm, expect, out[1]):
                    _cmp(res, ("ok", v), ex, exact, U, P, W, rep, u, p, "nparray")
        # outside
        for u in outside:
            for arg, call in ((lib.conv(u, prep(rep)), "scalar"), ([lib.conv(prm[0], prep(rep)), lib.conv(u, prep(rep))], "sequence")):
                res.transition()
                out = lib.outcome(c, arg)
                if out[0] == "ok" or out[1] != "ValueError":
                    res.violation("outside", f"curve({arg}) outside [{U[0]},{U[-1]}] gave {out[:2]} instead of ValueError",
                                  call=call, rep=rep, got=out[1] if out[0] != "ok" else "value")
                res.outcome("outside_" + (out[1] if out[0] == "raise" else "value"))
        if lib.snap_curve(c) != lib.snap_curve(mk(U, P, W, rep)):
            res.violation("mutated", f"evaluation changed the curve U={U}", rep=rep)
    for u in prm0:
        tab = rb.coxdeboor_all(U, p, u)
        if u == U[-1] or rb.mult(U, u) >= 2 or sum(1 for x in tab if x != 0) >= 2:
            res.nontriv((U, u))
    res.observe(len(configs))


def prep(rep):
    return "frac" if rep == "mixed" else rep


def mk(U, P, W, rep):
    if rep != "mixed":
        return lib.mk_curve(U, P, W, rep)
    c = lib.mk_curve(U, None, None, "frac")
    c.ctrlpoints = lib.points_arg(P, "int")  # python ints (an object array of ints for points in the plane)
    c.weights = [int(w) for w in W]
    return c


def _cmp(res, out, ex, exact, U, P, W, rep, u, p, call):
    if out[0] != "ok":
        res.violation("exception", f"curve({u}) raised {out[1]}: {out[2]} U={U} P={P} W={W} rep={rep}", call=call,
                      rep=rep, exc=out[1], rational=W is not None)
        res.outcome("raised")
        return
    v = out[1]
    isvec = isinstance(ex, tuple)
    try:
        got = lib.to_point(v)
    except Exception:  # noqa: BLE001
        res.violation("shape", f"curve({u}) returned {v!r}", call=call, rep=rep)
        return
    if isinstance(got, tuple) != isvec or (isvec and len(got) != len(ex)):
        res.violation("shape", f"curve({u}) returned {v!r}, expected a {'point' if isvec else 'scalar'}", call=call, rep=rep)
        return
    at_knot = u in U
    if exact:
        if got != ex:
            res.violation("value", f"curve({u}) = {got} != {ex}; U={U} P={P} W={W}", call=call, rep=rep,
                          rational=W is not None, at_knot=at_knot, at_umax=u == U[-1], degree=p)
        elif not lib.all_exact(v):
            res.violation("type", f"curve({u}) returned inexact type {type(v).__name__} ({v!r}) for rational data; U={U}",
                          call=call, rep=rep, rational=W is not None)
        res.outcome("exact_equal" if got == ex else "exact_differs")
    else:
        ok = lib.close_point(got, ex)
        if not ok:
            res.violation("value", f"curve({float(u)}) = {v!r} vs exact {ex}; U={U} W={W}", call=call, rep=rep,
                          rational=W is not None, at_knot=at_knot, at_umax=u == U[-1], degree=p)
        res.outcome("float_close" if ok else "float_differs")
