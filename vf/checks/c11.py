"""C11 - fit_curve is the L2-orthogonal projection (with optional exact interpolation)."""
from fractions import Fraction as F

from ..engine import alphabets as al
from ..engine import lib
from ..ref import bspline as rb
from ..ref import space as sp

ID = "C11"
RULE = ("enum: ordered pairs (source knot vector U, target knot vector V) on a common interval of an alphabet: all pairs with "
        "degrees (p,q) in {0..3}^2 ({0..4}^2) and <= 1 interior knot each (every multiplicity), plus all pairs with "
        "degrees <= 1 (2) and <= 2 interior knots; non-uniform spans and non-unit intervals in every run. For each pair "
        "the linear map source->fit is checked on every unit control vector and a generic one (decides all control "
        "points), the returned error (a quadratic form) on unit vectors, generic and sums e_i+e_j; 2-D generic points; "
        "node sets: none and every listed unisolvent set. Oracle: the result equals the exact L2 projection (unique, "
        "from exact Gram matrices), i.e. the residual is orthogonal to the target space (to the sub-space vanishing at "
        "the nodes, with interpolation, when nodes are given); error >= 0, = 0 iff the source is in the target space, "
        "error / integral(residual^2) is 1 or 1/2, one constant per mode. state = (U, V, nodes); transition = one fit "
        "compared; non-trivial = distinct (U, V, nodes) where the source space is not contained in the target space")
ASSUMPTIONS = ["the L2 projection on a spline space is unique, so equality with it is equivalent to orthogonality of the residual",
               "polynomial curves (the property is stated for spline spaces)", "float runs compared at 1e-9"]


def bounds(tier, seed):
    q = tier == "quick"
    return {"wide": {"pmax": 3 if q else 4, "kmax": 1}, "deep": {"pmax": 1 if q else 2, "kmax": 2},
            "seed_alphabet_wide_pmax": 2 if q else 3, "alphabets": al.tier_alphabets(tier, seed)}


def block(K, blk, tier):
    b = bounds(tier, 0)
    pmax = b[blk]["pmax"]
    if blk == "wide" and K != "K0":
        pmax = min(pmax, b["seed_alphabet_wide_pmax"])
    if blk == "deep" and K != "K0" and tier == "quick":
        return []
    if blk == "deep" and K != "K0":
        pmax = 1  # thorough: degree-2 targets with two interior knots on the core alphabet only
    return [(p, list(U)) for p, U in al.knotvectors(K, pmax, b[blk]["kmax"])]


def cases(tier, seed):
    b = bounds(tier, seed)
    for K in b["alphabets"]:
        for blk in ("wide", "deep"):
            for p, U in block(K, blk, tier):
                yield (K, p, tuple(U), blk, tier)
    for p, U in high_vectors():
        yield ("K0", p, tuple(U), "high", tier)


def high_vectors():
    a, b, cands = al.ALPHABETS["K0"]
    out = []
    for p in (4, 5):
        out.append((p, [a] * (p + 1) + [b] * (p + 1)))
        out.append((p, [a] * (p + 1) + [cands[1]] + [b] * (p + 1)))
    out.append((4, [a] * 5 + [cands[0], cands[2], cands[2]] + [b] * 5))
    return out


def describe(case):
    return {"alphabet": case[0], "source_degree": case[1], "source": list(case[2]), "targets": case[3]}


def node_sets(V, q, full):
    n = len(V) - q - 1
    ks = rb.knots_of(V)
    mids = al.midspans(V)
    cands = [None]
    for z in (list(ks), [mids[0]], [ks[0], mids[-1], ks[-1]]) if full else (list(ks), [mids[0]]):
        if len(z) <= n and z not in cands:
            cands.append(z)
    out = []
    for z in cands:
        if z is None or sp.unisolvent(V, z, q):
            out.append(z)
    return out


def run_case(case, res):
    K, p, U, blk, tier = case
    U = list(U)
    n = len(U) - p - 1
    if blk == "high":
        # degree 4 and 5 sources against high-degree targets and a few low-degree ones
        targets = high_vectors() + [(q, list(V)) for q, V in al.knotvectors("K0", 3, 1) if len(V) in (2, 5, 8)]
    else:
        targets = block(K, blk, tier)
    if blk == "deep" and len(set(U)) - 2 < 2:
        targets = [(q, V) for q, V in targets if len(set(V)) - 2 == 2]  # the other pairs belong to the wide block
    gen = al.generic_points(n)
    gen2 = al.generic_points(n, 2)
    for q, V in targets:
        inside = sp.subspace(U, V, p, q)
        for nodes in node_sets(V, q, tier != "quick"):
            mode = "nodes" if nodes else "plain"
            res.state((U, V, nodes))
            if not inside:
                res.nontriv((U, V, nodes))
            M, grams = sp.l2_projection_matrix(U, V, nodes, p, q)
            vecs = [(e, "unit") for e in al.unit_vectors(n)] + [(gen, "generic"), (gen2, "2d")]
            if n <= 3 and (not nodes or tier != "quick"):
                vecs += [([F(int(k == i or k == j)) for k in range(n)], "pair") for i in range(n) for j in range(i + 1, n)]
            ratios = set()
            for P, kindp in vecs:
                r = one_fit(res, U, p, P, V, q, nodes, "frac", mode, kindp, inside, M, grams)
                if r is not None:
                    ratios.add(r)
            if len(ratios) > 1:
                res.violation("error_constant", f"U={U} V={V} nodes={nodes}: error/integral(r^2) takes several values {ratios}",
                              mode=mode)
            for r in ratios:
                res.outcome(f"ratio_{r}_{mode}")
            if not nodes or tier != "quick":
                one_fit(res, U, p, gen, V, q, nodes, "float", mode, "generic", inside, M, grams)
    res.observe(sorted(res.outcomes.items()))


def one_fit(res, U, p, P, V, q, nodes, rep, mode, kindp, inside, M, grams):
    res.transition()
    exact = rep == "frac"
    tags = dict(mode=mode, rep=rep, degrees=f"{'p>=q+3' if p >= q + 3 else ('p>q' if p > q else 'p<=q')}",
                disc=any(rb.mult(V, k) == q + 1 for k in rb.knots_of(V)[1:-1]) or any(rb.mult(U, k) == p + 1 for k in rb.knots_of(U)[1:-1]))
    where = f"source U={U} P={P}; target V={V} nodes={nodes} rep={rep}"
    src = lib.mk_curve(U, P, None, rep)
    before = lib.snap_curve(src)
    tgt = lib.Curve(lib.conv(V, rep))
    arg = None if nodes is None else [lib.conv(z, rep) for z in nodes]
    o = lib.outcome(tgt.fit_curve, src, arg) if arg is not None else lib.outcome(tgt.fit_curve, src)
    if lib.snap_curve(src) != before:
        res.violation("source_modified", f"{where}: the source curve changed", **tags)
    if o[0] != "ok":
        res.violation("exception", f"{where}: raised {o[1]}: {o[2]}", exc=o[1], **tags)
        return None
    err = o[1]
    pts = [x if isinstance(x, tuple) else (x,) for x in P]
    exp = sp.apply_matrix(M, pts)
    got = tgt.ctrlpoints
    if got is None or len(got) != len(exp):
        res.violation("shape", f"{where}: control points {got}", **tags)
        return None
    gotp = [lib.to_point(x) for x in got]
    gotp = [(x,) if not isinstance(x, tuple) else x for x in gotp]
    if exact:
        if gotp != exp:
            res.violation("not_projection", f"{where}: fit {got} is not the L2 projection {exp}", **tags)
            return None
        if not lib.all_exact(got):
            res.violation("type", f"{where}: inexact control points {got}", **tags)
    else:
        if any(not lib.close_point(g, e) for g, e in zip(gotp, exp)):
            res.violation("not_projection", f"{where}: fit {got} vs exact projection {exp}", **tags)
            return None
    I = max(sp.sq_residual([x[c] for x in pts], [x[c] for x in exp], grams) for c in range(len(pts[0])))
    if I < 0:
        raise AssertionError("reference: negative squared residual")
    try:
        e = lib.to_frac(err)
    except Exception:  # noqa: BLE001
        res.violation("error_value", f"{where}: returned error {err!r}", **tags)
        return None
    res.outcome("in_space" if inside else "projected")
    if inside and I != 0:
        raise AssertionError("reference: source inside the target space but non-zero residual")
    if exact:
        if e < 0:
            res.violation("error_value", f"{where}: negative error {e}", **tags)
        if (I == 0) != (e == 0):
            res.violation("error_value", f"{where}: error {e} but integral of squared residual {I}", **tags)
            return None
        if I == 0:
            return None
        r = e / I
        if r not in (F(1), F(1, 2)):
            res.violation("error_value", f"{where}: error {e} = {float(r):.6g} x integral(r^2) {I}", **tags)
            return None
        return r
    if I == 0:
        if abs(e) > F(1, 10 ** 9):
            res.violation("error_value", f"{where}: error {float(e)} for a source inside the target space", **tags)
    elif not (lib.close(e, I, 1e-6) or lib.close(e, I / 2, 1e-6)):
        res.violation("error_value", f"{where}: error {float(e)} vs integral(r^2) {float(I)}", **tags)
    return None
