"""C13 - curve equality means equality as functions, independent of representation."""
import itertools
from fractions import Fraction as F

from ..engine import alphabets as al
from ..engine import lib
from ..ref import bspline as rb
from ..ref import space as sp

ID = "C13"
RULE = ("enum over pairs with depth-2 histories: base curves (every knot vector of the block x generic and small-alphabet control "
        "vectors x weights None / constant / generic / proportional) are re-represented by the reference model (identity, one "
        "or two inserted knots, degree elevation, both) and perturbed (+1 and +1e-3 on one control point, a different weight "
        "vector, a different interval); every ordered pair of representations must compare equal, every (representation, "
        "perturbed) pair unequal, in both orders; A == A; != is the negation; non-curve right operands give False; the call "
        "returns; operands unchanged. state = one ordered pair; transition = one == / != evaluation compared with the exact "
        "equality of the two piecewise rational functions; non-trivial = distinct pairs whose representations differ")
ASSUMPTIONS = ["pairs whose difference lies between 1e-9 and 1e-3 are not generated", "representations are built by the reference "
               "basis change, not by the library", "degrees/knot positions bounded by the alphabets"]


def bounds(tier, seed):
    q = tier == "quick"
    return {"pmax": 2 if q else 3, "kmax": 1 if q else 2, "deep_pmax": 1, "deep_kmax": 2, "alphabets": ["K0"] if q else al.tier_alphabets(tier, seed)}


def cases(tier, seed):
    b = bounds(tier, seed)
    for K in b["alphabets"]:
        seen = set()
        for blk in (("pmax", "kmax"), ("deep_pmax", "deep_kmax")):
            pm, km = b[blk[0]], b[blk[1]]
            if tier == "thorough" and K != "K0" and blk[0] == "pmax":
                pm, km = 2, 1  # the widest block (degree 3, two interior knots) on the core alphabet only
            for p, U in al.knotvectors(K, pm, km):
                if U in seen:
                    continue
                seen.add(U)
                n = len(U) - p - 1
                yield (K, p, U, "generic", "none")
                if len(U) <= (7 if tier == "quick" else 9):
                    yield (K, p, U, "generic", "generic")
                    yield (K, p, U, "generic", "const")
                if n <= (2 if tier == "quick" else 3):
                    yield (K, p, U, "small", "none")
                yield (K, p, U, "2d", "none")
    for c in high_cases(tier):
        yield c


def high_cases(tier):
    a, b, cands = al.ALPHABETS["K0"]
    for p in ((4, 5) if tier == "quick" else (4, 5, 6)):
        yield ("K0", p, tuple([a] * (p + 1) + [b] * (p + 1)), "generic", "const")
    yield ("K0", 4, tuple([a] * 5 + [cands[1]] + [b] * 5), "generic", "const")


def describe(case):
    return {"alphabet": case[0], "degree": case[1], "knotvector": list(case[2]), "points": case[3], "weights": case[4]}


def cost(case):
    return len(case[2]) * (3 if case[4] != "none" else 1) * (5 if case[3] == "small" else 1)


def represent(U, p, P, W, how):
    """another representation of the same function, by the reference model"""
    V, q = list(U), p
    ks = rb.knots_of(U)
    if "elev" in how:
        V = sorted(V + ks)
        q = p + 1
    if "ins1" in how or "ins2" in how:
        V = sorted(V + [ks[0] + (ks[1] - ks[0]) * F(2, 5)])
    if "ins2" in how:
        x = ks[-2] + (ks[-1] - ks[-2]) * F(3, 5)
        V = sorted(V + [x])
        if len(ks) > 2 and rb.mult(V, ks[1]) < q:
            V = sorted(V + [ks[1]])
    if "dup_first" in how and len(ks) > 2 and rb.mult(V, ks[1]) < q + 1:
        V = sorted(V + [ks[1]])
    if "dup_last" in how and len(ks) > 2 and rb.mult(V, ks[-2]) < q + 1:
        V = sorted(V + [ks[-2]])
    T = sp.basis_change(U, V, p, q)
    pts = [x if isinstance(x, tuple) else (x,) for x in P]
    scalar = not isinstance(P[0], tuple)
    if W is None:
        Q = sp.apply_matrix(T, pts)
        return V, [x[0] if scalar else x for x in Q], None
    H = [tuple(F(w) * c for c in pt) + (F(w),) for pt, w in zip(pts, W)]
    Q = sp.apply_matrix(T, H)
    W2 = [x[-1] for x in Q]
    P2 = [tuple(c / x[-1] for c in x[:-1]) for x in Q]
    return V, [x[0] if scalar else x for x in P2], W2


def check_eq(res, A, B, expect, where, tags):
    """A, B = (U, P, W) triples; one == and one != evaluation"""
    res.transition()
    ca, cb = lib.mk_curve(*A), lib.mk_curve(*B)
    sa, sb = lib.snap_curve(ca), lib.snap_curve(cb)
    o = lib.outcome(lambda: ca == cb)
    o2 = lib.outcome(lambda: ca != cb)
    res.state((lib.tagdeep(A), lib.tagdeep(B)))
    if A != B:
        res.nontriv((lib.tagdeep(A), lib.tagdeep(B)))
    res.outcome(f"expect_{expect}:{o[1] if o[0] == 'ok' else 'raise ' + o[1]}")
    if lib.snap_curve(ca) != sa or lib.snap_curve(cb) != sb:
        res.violation("operand_modified", f"{where}: an operand changed", **tags)
    if o[0] != "ok":
        res.violation("exception", f"{where}: == raised {o[1]}: {o[2]}", exc=o[1], **tags)
        return
    if bool(o[1]) != expect:
        res.violation("wrong_answer", f"{where}: A == B is {o[1]}, the curves are {'equal' if expect else 'different'} as functions; "
                      f"A={A} B={B}", expect=expect, **tags)
    if o2[0] != "ok" or bool(o2[1]) == bool(o[1]):
        res.violation("ne_not_negation", f"{where}: A != B gave {o2[1:]} while A == B gave {o[1]}", **tags)


def run_case(case, res):
    K, p, U, pkind, wkind = case
    U = list(U)
    n = len(U) - p - 1
    if pkind == "generic":
        Ps = [al.generic_points(n)]
    elif pkind == "2d":
        Ps = [al.generic_points(n, 2)]
    else:
        Ps = [[F(x) for x in v] for v in itertools.product((-1, 0, 2), repeat=n)]
    W = {"none": None, "generic": al.generic_weights(n), "const": [F(2)] * n}[wkind]
    hows = ["id", "ins1", "elev", "elev+ins2"] if p < 3 else ["id", "ins1", "ins2"]
    if p >= 4:
        hows = ["id", "ins1"]  # high degree: the polynomial / constant-weight rational pair is the point of these cases
    if W is not None:
        hows = hows[:3]  # rational equality goes through curve products (slow): three representations
    elif len(set(U)) >= 4:
        # two interior knots: representations with the same degree, number of control points and distinct knots but the
        # extra multiplicity on different knots
        hows = hows + ["dup_first", "dup_last"]
    for P in Ps:
        reps = [(h, represent(U, p, P, W, h)) for h in hows]
        D0 = rb.denote(U, P, W, p)
        for h, R in reps:
            if not rb.denote(R[0], R[1], R[2], rb.degree_of(R[0])).same(D0):
                raise AssertionError("reference: representation differs")
        if wkind == "const":
            reps.append(("polynomial", (U, P, None)))           # polynomial description of the same function
        if wkind == "generic":
            reps.append(("scaled_weights", (U, P, [3 * w for w in W])))
        if pkind == "small" and len(Ps) > 9:
            reps = reps[:3]
        wtag = dict(weights=wkind, points=pkind)
        # equal pairs, both orders, reflexive
        for (ha, A), (hb, B) in itertools.product(reps, repeat=2):
            check_eq(res, A, B, True, f"{ha} == {hb}", dict(pair=f"{ha}|{hb}" if ha != hb else "reflexive", **wtag))
        # perturbed copies of the first two representations
        perturbed = []
        for h, (V, Q, WQ) in reps[:2]:
            for delta, lab in ((F(1), "plus1"), (F(1, 1000), "plus1e-3")):
                Q2 = list(Q)
                i = len(Q2) // 2
                Q2[i] = tuple(c + delta for c in Q2[i]) if isinstance(Q2[i], tuple) else Q2[i] + delta
                perturbed.append((f"{h}:{lab}", (V, Q2, WQ)))
            if n >= 2:
                W2 = list(WQ) if WQ is not None else [F(1)] * len(Q)
                W2[0] = W2[0] * 3
                if len(set(Q)) > 1:
                    perturbed.append((f"{h}:other_weights", (V, list(Q), W2)))
        for hx, X in perturbed:
            DX = rb.denote(X[0], X[1], X[2], rb.degree_of(X[0]))
            if DX.same(D0):
                continue
            for ha, A in reps[:3]:
                check_eq(res, A, X, False, f"{ha} == {hx}", dict(pair="perturbed:" + hx.split(":")[1], **wtag))
                check_eq(res, X, A, False, f"{hx} == {ha}", dict(pair="perturbed:" + hx.split(":")[1], **wtag))
        # different interval, non-curve operands
        A = reps[0][1]
        shifted = ([k + 1 for k in A[0]], A[1], A[2])
        check_eq(res, A, shifted, False, "id == shifted interval", dict(pair="other_interval", **wtag))
        check_eq(res, shifted, A, False, "shifted interval == id", dict(pair="other_interval", **wtag))
        ca = lib.mk_curve(*A)
        for other in (1, "x", None, lib.mk_kv(A[0]), [1, 2]):
            res.transition()
            o = lib.outcome(lambda: ca == other)
            o2 = lib.outcome(lambda: ca != other)
            if o[0] != "ok" or o[1] is not False or o2[0] != "ok" or o2[1] is not True:
                res.violation("non_curve", f"curve == {other!r} gave {o[1:]}, != gave {o2[1:]}", other=type(other).__name__, **wtag)
    res.observe(sorted(res.outcomes.items()))
