"""C12 - fit_points / fit_function solve the discrete least-squares problem exactly."""
import copy
import itertools
from fractions import Fraction as F

from ..engine import alphabets as al
from ..engine import lib
from ..ref import bspline as rb
from ..ref import space as sp

ID = "C12"
RULE = ("enum: every knot vector of the alphabets (degree <= 3, <= 2 interior knots, repeated knots) x weights {None, generic} x "
        "node tuples of length npts, npts+1, npts+2 drawn from {knots, thirds of spans} (all combinations when few, an evenly "
        "strided subset otherwise) that the reference finds unisolvent, plus the documented default nodes (equally "
        "distributed) x data: every unit data vector (the solution operator is linear in the data, so this decides all "
        "data), generic scalar and 2-D data, samples of an in-space curve. Oracle: exact normal equations "
        "B^T (B Q - Z) = 0 with the reference collocation matrix B[k][i] = R_i(z_k), i.e. Q equals the unique least-squares "
        "solution; interpolation when len(points) = npts; exact reproduction of in-space samples; fit_function reproduces "
        "every (rational) basis function and generic members of the curve's own space; fewer points than control points "
        "rejected. state = (knot vector, weights, nodes); transition = one fit compared; non-trivial = distinct (knot "
        "vector, weights, nodes, data kind)")
ASSUMPTIONS = ["linearity of the least-squares solution in the data", "unisolvence decided by the reference rank of the collocation "
               "matrix; non-unisolvent node sets are not generated", "default nodes = equally distributed including both ends, "
               "as documented, for Fraction knots"]


def bounds(tier, seed):
    q = tier == "quick"
    return {"pmax": 3, "kmax": 2, "tuples_per_size": 4 if q else 12, "alphabets": al.tier_alphabets(tier, seed),
            "pmax_seed_alphabet": 2 if q else 3}


def cases(tier, seed):
    b = bounds(tier, seed)
    for K in b["alphabets"]:
        pmax = b["pmax"] if K == "K0" else b["pmax_seed_alphabet"]
        for p, U in al.knotvectors(K, pmax, b["kmax"]):
            yield (K, p, U, b["tuples_per_size"])
    for p, U in high_vectors(tier):
        yield ("high", p, U, 0)


def high_vectors(tier):
    a, b, cands = al.ALPHABETS["K0"]
    pats = [(4, (5, 1, 1)), (4, (1, 1, 5)), (4, (1, 5, 1)), (4, (5, 1))]
    if tier != "quick":
        pats += [(5, (6, 1, 1)), (5, (1, 1, 6)), (4, (2, 5, 1, 1)), (3, (4, 1, 1))]
    for p, ms in pats:
        U = [a] * (p + 1)
        for x, m in zip(cands, ms):
            U += [x] * m
        yield p, tuple(U + [b] * (p + 1))


def describe(case):
    return {"alphabet": case[0], "degree": case[1], "knotvector": list(case[2])}


def cost(case):
    return len(case[2]) ** 2


def node_tuples(U, p, n, per_size):
    ks = rb.knots_of(U)
    cand = set(ks)
    for a, b in zip(ks[:-1], ks[1:]):
        cand |= {a + (b - a) / 3, a + 2 * (b - a) / 3}
    cand = sorted(cand)
    out = []
    for m in (n, n + 1, n + 2):
        if m > len(cand):
            continue
        combos = itertools.combinations(cand, m)
        total = 1
        for i in range(m):
            total = total * (len(cand) - i) // (i + 1)
        if total <= per_size * 3:
            chosen = list(combos)
        else:
            stride = total // (per_size * 3)
            chosen = list(itertools.islice(combos, 0, None, stride))
        got = 0
        for z in chosen:
            if got >= per_size:
                break
            B = sp.collocation(U, z, None, p)
            if sp.rank_nullspace(B)[0] == n:
                out.append(list(z))
                got += 1
    return out


def lstsq_ref(B, Z):
    Bt = sp.transpose(B)
    return sp.solve(sp.matmul(Bt, B), sp.matmul(Bt, Z))


def check_fit(res, U, p, W, nodes, Z, kindz, explicit=True, rep="frac", via=None):
    res.transition()
    n = len(U) - p - 1
    exact = rep == "frac"
    c = lib.Curve(lib.conv(U, rep))
    if W is not None:
        c.weights = lib.conv(W, rep)
    if via is not None:
        # the fit is made on a copy of the prepared template (knot vector and weights, no control points yet)
        c = {"copy": copy.copy, "deepcopy": copy.deepcopy}[via](c)
    pts = lib.points_arg(Z, rep)
    args = [pts, [lib.conv(z, rep) for z in nodes]] if explicit else [pts]
    o = lib.outcome(c.fit_points, *args)
    tags = dict(api="fit_points", rational=W is not None, nodes="explicit" if explicit else "default", data=kindz, rep=rep,
                square=len(nodes) == n)
    where = f"U={U} W={W} fit_points({Z}, {nodes if explicit else None}) rep={rep}"
    res.state((tuple(U), lib.tagdeep(W), tuple(nodes), explicit))
    res.nontriv((tuple(U), lib.tagdeep(W), tuple(nodes), explicit, kindz, rep))
    res.outcome(f"fit_points:{'ok' if o[0] == 'ok' else o[1]}")
    if o[0] != "ok":
        res.violation("exception", f"{where}: raised {o[1]}: {o[2]}", exc=o[1], **tags)
        return
    Q = c.ctrlpoints
    if Q is None or len(Q) != n:
        res.violation("shape", f"{where}: control points {Q}", **tags)
        return
    B = sp.collocation(U, nodes, W, p)
    Zt = [z if isinstance(z, tuple) else (z,) for z in Z]
    exp = lstsq_ref(B, [list(z) for z in Zt])
    got = [lib.to_point(q) for q in Q]
    got = [q if isinstance(q, tuple) else (q,) for q in got]
    if exact:
        if [list(q) for q in got] != exp:
            res.violation("not_least_squares", f"{where}: control points {Q} != least-squares solution {exp}", **tags)
            return
        if not lib.all_exact(Q):
            res.violation("type", f"{where}: inexact control points {Q}", **tags)
        if len(nodes) == n:
            D = rb.denote(U, [q[0] if len(q) == 1 else q for q in got], W, p)
            for z, zz in zip(nodes, Zt):
                v = D.value(z)
                if (v if isinstance(v, tuple) else (v,)) != zz:
                    res.violation("no_interpolation", f"{where}: D({z}) = {v} != {zz}", **tags)
                    break
    elif any(not lib.close_point(tuple(g), tuple(e), 1e-9) for g, e in zip(got, exp)):
        res.violation("not_least_squares", f"{where}: control points {Q} vs least-squares solution {exp}", **tags)


def run_case(case, res):
    K, p, U, per_size = case
    U = list(U)
    n = len(U) - p - 1
    gen = al.generic_points(n)
    if K == "high":
        # fit_function with its default nodes must reproduce members of the space (every span needs enough nodes)
        for kindf, coef in [("generic", gen), ("basis", [F(int(i == 0)) for i in range(n)]), ("basis", [F(int(i == n - 1)) for i in range(n)])]:
            for rep in ("frac", "float"):
                res.transition()
                D = rb.denote(U, coef, None, p)
                c = lib.Curve(lib.conv(U, rep))
                fn = (lambda u, D=D: D.value(u)) if rep == "frac" else (lambda u, D=D: float(D.value(lib.to_frac(float(u)))))
                o = lib.outcome(c.fit_function, fn)
                tags = dict(api="fit_function", rational=False, data=kindf, rep=rep, block="high")
                where = f"U={U} fit_function(member of the space, coefficients {coef}) rep={rep}"
                res.state((tuple(U), "fit_function", kindf, rep))
                res.nontriv((tuple(U), kindf, rep))
                res.outcome(f"fit_function_high:{'ok' if o[0] == 'ok' else o[1]}")
                if o[0] != "ok":
                    res.violation("exception", f"{where}: raised {o[1]}: {o[2]}", exc=o[1], **tags)
                elif rep == "frac" and not lib.curve_pw(c).same(D):
                    res.violation("not_reproduced", f"{where}: got {c.ctrlpoints}", **tags)
                elif rep == "float" and any(not lib.close(g, e, 1e-7) for g, e in zip(c.ctrlpoints, coef)):
                    res.violation("not_reproduced", f"{where}: got {c.ctrlpoints}", **tags)
        return res.observe(sorted(res.outcomes.items()))
    for W in (None, al.generic_weights(n)):
        Dgen = rb.denote(U, gen, W, p)
        for nodes in node_tuples(U, p, n, per_size):
            m = len(nodes)
            for k in range(m):
                check_fit(res, U, p, W, nodes, [F(int(i == k)) for i in range(m)], "unit")
            check_fit(res, U, p, W, nodes, al.generic_points(m, None, 1), "generic")
            check_fit(res, U, p, W, nodes, al.generic_points(m, 2), "2d")
            check_fit(res, U, p, W, nodes, [Dgen.value(z) for z in nodes], "in_space_samples")
            if W is not None:
                check_fit(res, U, p, W, nodes, [Dgen.value(z) for z in nodes], "in_space_samples_on_copy", via="copy")
                check_fit(res, U, p, W, nodes, al.generic_points(m, None, 1), "generic_on_deepcopy", via="deepcopy")
            if W is None:
                for perm, lab in ((list(reversed(nodes)), "reversed"), (nodes[m // 2:] + nodes[:m // 2], "rotated")):
                    check_fit(res, U, p, W, perm, [Dgen.value(z) for z in perm], "in_space_samples_" + lab)
                    check_fit(res, U, p, W, perm, al.generic_points(m, None, 1), "generic_" + lab)
            if W is None:
                check_fit(res, U, p, W, nodes, al.generic_points(m, None, 1), "generic", True, "float")
        # default nodes: equally distributed, both ends included (documented)
        for m in (n, n + 2):
            if m < 2:
                continue
            nodes = [U[0] + (U[-1] - U[0]) * F(i, m - 1) for i in range(m)]
            if sp.rank_nullspace(sp.collocation(U, nodes, None, p))[0] != n:
                res.outcome("default_nodes_not_unisolvent")
                continue
            check_fit(res, U, p, W, nodes, al.generic_points(m, None, 1), "generic", explicit=False)
            check_fit(res, U, p, W, nodes, [Dgen.value(z) for z in nodes], "in_space_samples", explicit=False)
        # fewer points than control points
        if n >= 2:
            res.transition()
            c = lib.mk_curve(U, None, W)
            o = lib.outcome(c.fit_points, [F(1)] * (n - 1), [U[0] + (U[-1] - U[0]) * F(i + 1, n + 1) for i in range(n - 1)])
            if o[0] == "ok":
                res.violation("accepted_underdetermined", f"U={U}: fit_points with {n - 1} points for {n} control points accepted",
                              api="fit_points")
            res.outcome("too_few_points:" + (o[1] if o[0] != "ok" else "ok"))
        # fit_function on members of the curve's own space
        funcs = [("basis", [F(int(i == j)) for i in range(n)]) for j in range(n)] + [("generic", gen)]
        for kindf, coef in funcs:
            res.transition()
            D = rb.denote(U, coef, W, p)
            c = lib.mk_curve(U, None, W)
            o = lib.outcome(c.fit_function, lambda u, D=D: D.value(u))
            tags = dict(api="fit_function", rational=W is not None, data=kindf)
            where = f"U={U} W={W} fit_function(member of the space with coefficients {coef})"
            res.state((tuple(U), lib.tagdeep(W), "fit_function", kindf))
            res.outcome(f"fit_function:{'ok' if o[0] == 'ok' else o[1]}")
            if o[0] != "ok":
                res.violation("exception", f"{where}: raised {o[1]}: {o[2]}", exc=o[1], **tags)
                continue
            try:
                same = lib.curve_pw(c).same(D)
            except Exception:  # noqa: BLE001
                same = False
            if not same:
                res.violation("not_reproduced", f"{where}: got control points {c.ctrlpoints}", **tags)
            elif not lib.all_exact(c.ctrlpoints):
                res.violation("type", f"{where}: inexact control points {c.ctrlpoints}", **tags)
        # float knots: fit_function / default fit_points use Chebyshev nodes; in-space functions are reproduced to rounding
        if W is None:
            res.transition(2)
            D = rb.denote(U, gen, None, p)
            cf = lib.Curve(lib.conv(U, "float"))
            o = lib.outcome(cf.fit_function, lambda u, D=D: float(D.value(lib.to_frac(float(u)))))
            tags = dict(api="fit_function", rational=False, data="generic", rep="float")
            if o[0] != "ok":
                res.violation("exception", f"U={U} float fit_function(member of the space) raised {o[1]}: {o[2]}", exc=o[1], **tags)
            elif any(not lib.close(g, e, 1e-8) for g, e in zip(cf.ctrlpoints, gen)):
                res.violation("not_reproduced", f"U={U} float fit_function: {cf.ctrlpoints} vs {gen}", **tags)
            res.outcome("fit_function_float")
    res.observe(sorted(res.outcomes.items()))
