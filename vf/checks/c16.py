"""C16 - results do not depend on the number representation."""
from fractions import Fraction as F

from ..engine import alphabets as al
from ..engine import lib
from ..ref import bspline as rb
from ..ref import space as sp

ID = "C16"
RULE = ("enum (configuration sweep): a fixed list of operation scripts (evaluate, basis functions, insert, insert+remove, elevate, "
        "elevate+reduce, elevation by two degrees in one step (method, setter, sum with a partner two degrees higher), split, split+join, + - * /, fit_curve, fit_points, default Integrate.scalar) x every knot vector of "
        "the alphabets (degree <= 3, <= 2 interior knots; plus the large-numerator alphabet K4) x representation in "
        "{Fraction, int control points, Python float, numpy float64 scalars, numpy arrays} and a minimal user point type "
        "(only point+point and scalar*point) for evaluation, insertion, elevation and splitting; the float runs are executed "
        "before the exact run of the same script on the same knot values (history across representations). Oracle: Fraction runs must "
        "produce only int/Fraction numbers (type walk over knots, control points, weights, returned values) and equal the "
        "reference exactly; float runs must have the same outcome class and agree with the exact values to 1e-9 relative. "
        "state = (knot vector, script, representation); transition = one script execution compared; non-trivial = distinct "
        "(knot vector, script, representation) triples")
ASSUMPTIONS = ["well-conditioned inputs only (small alphabets); floats compared at 1e-9 relative", "the exact values are those of the "
               "Fraction run, which is itself compared with the reference model in the same execution"]
SCRIPTS = ("eval", "basis", "insert", "insert_remove", "elevate", "elevate_reduce", "elevate2", "elevate2_reduce2", "split",
           "split_join", "add", "add2", "sub", "mul", "div", "fit_curve", "fit_points", "interp_points", "integrate")
CUSTOM_SCRIPTS = ("eval", "insert", "elevate", "split")
FLOAT_REPS = ("float", "npfloat", "nparray")


def bounds(tier, seed):
    q = tier == "quick"
    return {"pmax": 3, "kmax": 2, "alphabets": al.tier_alphabets(tier, seed), "big_pmax": 2 if q else 3, "big_kmax": 1 if q else 2,
            "mul_pmax": 2}


def cases(tier, seed):
    b = bounds(tier, seed)
    for K in b["alphabets"]:
        for p, U in al.knotvectors(K, b["pmax"], b["kmax"]):
            if tier == "quick" and K != "K0" and p > 2:
                continue
            yield (K, p, U)
    for p, U in al.knotvectors("K4", b["big_pmax"], b["big_kmax"]):
        yield ("K4", p, U)


def describe(case):
    return {"alphabet": case[0], "degree": case[1], "knotvector": [str(k) for k in case[2]]}


def cost(case):
    return len(case[2]) ** 2


class Pt:
    """minimal user point: supports only point + point and scalar * point"""
    __array_priority__ = 1000

    def __init__(self, x, y):
        self.x, self.y = x, y

    def __add__(self, other):
        if not isinstance(other, Pt):
            return NotImplemented
        return Pt(self.x + other.x, self.y + other.y)

    def __rmul__(self, s):
        if isinstance(s, Pt):
            return NotImplemented
        return Pt(s * self.x, s * self.y)

    def tup(self):
        return (self.x, self.y)


def conv_knots(U, rep):
    if rep in ("frac", "intpts", "custom"):
        return [F(k) for k in U]
    if rep == "float":
        return [float(k) for k in U]
    if rep == "npfloat":
        return [lib.np.float64(float(k)) for k in U]
    return lib.np.array([float(k) for k in U], dtype="float64")


def conv_pts(P, rep):
    if rep == "frac":
        return [F(x) for x in P]
    if rep == "intpts":
        return [int(x) for x in P]
    if rep == "float":
        return [float(x) for x in P]
    if rep == "custom":
        return [Pt(F(x), F(2) - F(x) / 3) for x in P]
    return lib.np.array([float(x) for x in P], dtype="float64")


def num(x, rep):
    if rep in ("frac", "intpts", "custom"):
        return F(x)
    if rep == "float":
        return float(x)
    return lib.np.float64(float(x))


def curve_values(c, prm, rep):
    return [c(num(u, rep)) for u in prm]


def run_script(name, U, p, P, rep):
    """returns (structure, numbers): structure = knot vectors / shapes (exact comparison), numbers = flat list of values"""
    n = len(U) - p - 1
    ks = rb.knots_of(U)
    mid = ks[0] + (ks[1] - ks[0]) / 2
    prm = [ks[0], mid, ks[-1]] + [(a + b) / 2 for a, b in zip(ks[1:-1], ks[2:])] + list(ks[1:-1])
    c = lib.Curve(conv_knots(U, rep), conv_pts(P, rep))
    if name == "eval":
        return [], curve_values(c, prm, rep) + list(c([num(u, rep) for u in prm]))
    if name == "basis":
        f = lib.Function(conv_knots(U, rep))
        out = []
        for j in range(p + 1):
            for row in f[:, j]([num(u, rep) for u in prm]):
                out += list(row)
        return [], out
    if name == "insert":
        c.knot_insert([num(mid, rep), num(mid, rep)] if p >= 1 else [num(mid, rep)])
        return [list(c.knotvector)], list(c.ctrlpoints) + curve_values(c, prm, rep)
    if name == "insert_remove":
        c.knot_insert([num(mid, rep)])
        c.knot_remove([num(mid, rep)])
        return [list(c.knotvector)], list(c.ctrlpoints)
    if name == "elevate":
        c.degree_increase(1)
        return [list(c.knotvector)], list(c.ctrlpoints) + curve_values(c, prm, rep)
    if name == "elevate_reduce":
        c.degree_increase(1)
        c.degree_decrease(1)
        return [list(c.knotvector)], list(c.ctrlpoints)
    if name == "elevate2":
        c.degree_increase(2)  # two degrees in one request
        return [list(c.knotvector)], list(c.ctrlpoints) + curve_values(c, prm, rep)
    if name == "elevate2_reduce2":
        c.degree = p + 2
        c.degree_decrease(2)
        return [list(c.knotvector)], list(c.ctrlpoints)
    if name == "add2":
        # a partner two degrees higher: the sum elevates this curve by two degrees in one step
        V = [ks[0]] * (p + 3) + [ks[-1]] * (p + 3)
        Q = [F(x) for x in (2, 3, 5, 7, 11, 13, 17)[:p + 3]]
        d = lib.Curve(conv_knots(V, rep), conv_pts(Q, rep))
        r = c + d
        return [list(r.knotvector)], list(r.ctrlpoints) + curve_values(r, prm, rep)
    if name == "split":
        pieces = c.split([num(mid, rep)])
        return [list(pc.knotvector) for pc in pieces], [x for pc in pieces for x in pc.ctrlpoints]
    if name == "split_join":
        pieces = c.split([num(mid, rep)])
        j = pieces[0] | pieces[1]
        return [list(j.knotvector)], list(j.ctrlpoints)
    if name in ("add", "sub", "mul", "div"):
        q = max(p - 1, 0)
        V = [ks[0]] * (q + 1) + [ks[0] + (ks[-1] - ks[0]) * F(3, 5)] + [ks[-1]] * (q + 1)
        Q = [F(x) for x in (2, 3, 5, 7, 11)[:len(V) - q - 1]]
        d = lib.Curve(conv_knots(V, rep), conv_pts(Q, rep))
        r = {"add": lambda: c + d, "sub": lambda: c - d, "mul": lambda: c * d, "div": lambda: c / d}[name]()
        w = [] if r.weights is None else list(r.weights)
        return [list(r.knotvector)], curve_values(r, prm, rep) + w
    if name == "fit_curve":
        V = [ks[0]] * 2 + [ks[-1]] * 2
        t = lib.Curve(conv_knots(V, rep))
        e = t.fit_curve(c)
        return [], list(t.ctrlpoints) + [e]
    if name == "fit_points":
        nodes = [ks[0] + (ks[-1] - ks[0]) * F(i, n + 1) for i in range(n + 2)]
        nodes = list(reversed(nodes))  # the order in which the data are given must not matter (exact and float alike)
        t = lib.Curve(conv_knots(U, rep))
        t.fit_points([c(num(z, rep)) for z in nodes], [num(z, rep) for z in nodes])
        return [], list(t.ctrlpoints)
    if name == "interp_points":
        # exactly npts nodes (interpolation), given in decreasing order
        nodes = list(reversed(interp_nodes(U, p)))
        t = lib.Curve(conv_knots(U, rep))
        t.fit_points([c(num(z, rep)) for z in nodes], [num(z, rep) for z in nodes])
        return [], list(t.ctrlpoints)
    if name == "integrate":
        return [], [lib.Integrate.scalar(c)]
    raise KeyError(name)


def interp_nodes(U, p):
    """npts interpolation nodes: Greville abscissae for p >= 1 (always unisolvent), span midpoints for p = 0"""
    n = len(U) - p - 1
    if p == 0:
        ks = rb.knots_of(U)
        return [(a + b) / 2 for a, b in zip(ks[:-1], ks[1:])]
    g = [sum(U[i + 1:i + p + 1], F(0)) / p for i in range(n)]
    # repeated Greville abscissae (full-multiplicity knots) are nudged apart inside their spans
    out = []
    for i, x in enumerate(g):
        while x in out:
            x = x + (U[-1] - U[0]) * F(1, 64)
        out.append(min(x, U[-1]))
    return out


def reference(name, U, p, P):
    """exact expected numbers for the Fraction run (same layout as run_script), or None when the layout is the curve's own
    representation, which is compared as a function instead"""
    n = len(U) - p - 1
    ks = rb.knots_of(U)
    mid = ks[0] + (ks[1] - ks[0]) / 2
    prm = [ks[0], mid, ks[-1]] + [(a + b) / 2 for a, b in zip(ks[1:-1], ks[2:])] + list(ks[1:-1])
    D = rb.denote(U, P, None, p)
    if name == "eval":
        return [D.value(u) for u in prm] * 2
    if name == "basis":
        out = []
        for j in range(p + 1):
            cols = [rb.coxdeboor_all(U, j, u)[:n] for u in prm]
            for i in range(n):
                out += [cols[k][i] for k in range(len(prm))]
        return out
    if name in ("insert", "elevate"):
        V = sorted(U + ([mid, mid] if p >= 1 else [mid])) if name == "insert" else sorted(U + ks)
        T = sp.basis_change(U, V, p, p if name == "insert" else p + 1)
        return [x[0] for x in sp.apply_matrix(T, [(x,) for x in P])] + [D.value(u) for u in prm]
    if name in ("insert_remove", "elevate_reduce", "elevate2_reduce2"):
        return list(P)
    if name in ("elevate2", "add2"):
        V = sorted(U + ks + ks)
        T = sp.basis_change(U, V, p, p + 2)
        Q = [x[0] for x in sp.apply_matrix(T, [(x,) for x in P])]
        if name == "elevate2":
            return Q + [D.value(u) for u in prm]
        W = [ks[0]] * (p + 3) + [ks[-1]] * (p + 3)
        E = rb.denote(W, [F(x) for x in (2, 3, 5, 7, 11, 13, 17)[:p + 3]], None, p + 2)
        T2 = sp.basis_change(W, V, p + 2, p + 2)
        Q2 = [x[0] for x in sp.apply_matrix(T2, [(F(x),) for x in (2, 3, 5, 7, 11, 13, 17)[:p + 3]])]
        return [a + b for a, b in zip(Q, Q2)] + [D.value(u) + E.value(u) for u in prm]
    if name == "split":
        out = []
        for a, b in ((ks[0], mid), (mid, ks[-1])):
            V = [a] * (p + 1) + [k for k in U if a < k < b] + [b] * (p + 1)
            out += [x[0] for x in sp.dual_coeffs(D.restrict(a, b), V, p)]
        return out
    if name == "split_join":
        return list(P)
    if name == "fit_curve":
        V = [ks[0]] * 2 + [ks[-1]] * 2
        M, grams = sp.l2_projection_matrix(U, V, None, p, 1)
        Dc = sp.matvec(M, P)
        return Dc + [sp.sq_residual(P, Dc, grams)]
    if name in ("fit_points", "interp_points"):
        return list(P)
    if name == "integrate":
        return [sum(P[i] * (U[i + p + 1] - U[i]) / (p + 1) for i in range(n))]
    if name in ("add", "sub", "mul", "div"):
        q = max(p - 1, 0)
        V = [ks[0]] * (q + 1) + [ks[0] + (ks[-1] - ks[0]) * F(3, 5)] + [ks[-1]] * (q + 1)
        Q = [F(x) for x in (2, 3, 5, 7, 11)[:len(V) - q - 1]]
        E = rb.denote(V, Q, None, q)
        R = {"add": D.add(E), "sub": D.add(E, -1), "mul": D.mul(E), "div": D.div(E)}[name]
        return [R.value(u) for u in prm]
    raise KeyError(name)


def flat(x):
    out = []
    for v in x:
        if isinstance(v, Pt):
            out += [v.x, v.y]
        elif isinstance(v, lib.np.ndarray) and v.ndim > 0:
            out += flat(v.tolist())
        elif isinstance(v, (list, tuple)):
            out += flat(v)
        else:
            out.append(v)
    return out


def run_case(case, res):
    K, p, U = case
    U = list(U)
    n = len(U) - p - 1
    P = al.generic_points(n)
    big = K == "K4"
    fit_nodes = [U[0] + (U[-1] - U[0]) * F(i, n + 1) for i in range(n + 2)]
    fit_ok = sp.rank_nullspace(sp.collocation(U, fit_nodes, None, p))[0] == n
    for name in SCRIPTS:
        if name == "mul" and p > 2:
            continue
        if name == "interp_points" and sp.rank_nullspace(sp.collocation(U, interp_nodes(U, p), None, p))[0] != n:
            res.outcome("interp_nodes_not_unisolvent")
            continue
        if name == "fit_points" and not fit_ok:
            res.outcome("fit_points_nodes_not_unisolvent")  # outside the property's domain (admissible node sets)
            continue
        res.transition()
        tags = dict(script=name, big=big)
        where = f"script {name} on U={[str(k) for k in U]} P={P}"
        # the float representations run FIRST: a result that depends on what was computed before on numerically equal data
        # of another number type (a value-keyed cache, a shared scratch table) then shows up in the exact run
        pre = {} if big else {rep: lib.outcome(run_script, name, U, p, P, rep) for rep in FLOAT_REPS}
        o = lib.outcome(run_script, name, U, p, P, "frac")
        res.state((tuple(U), name, "frac"))
        res.nontriv((tuple(U), name, "frac"))
        res.outcome(f"frac:{name}:{'ok' if o[0] == 'ok' else o[1]}")
        exact_nums = None
        if o[0] != "ok":
            res.violation("exception", f"{where} [Fraction]: raised {o[1]}: {o[2]}", rep="frac", exc=o[1], **tags)
        else:
            struct, nums = o[1]
            nums = flat(nums)
            if not all(lib.is_exact_number(v) for v in nums) or not all(lib.is_exact_number(k) for kv in struct for k in kv):
                bad = [type(v).__name__ for v in nums + [k for kv in struct for k in kv] if not lib.is_exact_number(v)][:3]
                res.violation("float_introduced", f"{where} [Fraction]: result contains non-rational numbers ({bad})", rep="frac", **tags)
            else:
                exact_nums = [lib.to_frac(v) for v in nums]
                exp = reference(name, U, p, P)
                tail = exp if name not in ("add", "sub", "mul", "div") else None
                if tail is not None:
                    if exact_nums[:len(tail)] != [F(x) for x in tail]:
                        res.violation("wrong_exact_value", f"{where} [Fraction]: {exact_nums[:len(tail)]} != reference {tail}",
                                      rep="frac", **tags)
                        exact_nums = None
                elif exact_nums[:len(exp)] != exp:
                    res.violation("wrong_exact_value", f"{where} [Fraction]: values {exact_nums[:len(exp)]} != reference {exp}",
                                  rep="frac", **tags)
                    exact_nums = None
        if big:
            continue
        # int control points: still exact
        if name in ("eval", "insert", "elevate", "elevate2", "split", "integrate", "add", "add2", "mul"):
            res.transition()
            oi = lib.outcome(run_script, name, U, p, P, "intpts")
            res.state((tuple(U), name, "intpts"))
            if oi[0] != "ok":
                res.violation("exception", f"{where} [int control points]: raised {oi[1]}: {oi[2]}", rep="intpts", exc=oi[1], **tags)
            else:
                numsi = flat(oi[1][1])
                if not all(lib.is_exact_number(v) for v in numsi):
                    res.violation("float_introduced", f"{where} [int control points]: non-rational numbers in the result", rep="intpts", **tags)
                elif exact_nums is not None and [lib.to_frac(v) for v in numsi] != exact_nums:
                    res.violation("representation_dependent", f"{where}: int control points give different values", rep="intpts", **tags)
        for rep in FLOAT_REPS:
            res.transition()
            of = pre[rep]
            res.state((tuple(U), name, rep))
            res.nontriv((tuple(U), name, rep))
            res.outcome(f"{rep}:{name}:{'ok' if of[0] == 'ok' else of[1]}")
            if (of[0] == "ok") != (o[0] == "ok"):
                res.violation("outcome_differs", f"{where}: Fraction run {o[0]}{'' if o[0] == 'ok' else ' ' + o[1]}, {rep} run "
                              f"{of[0]}{'' if of[0] == 'ok' else ' ' + of[1] + ': ' + of[2]}", rep=rep, exc=of[1] if of[0] != "ok" else "", **tags)
                continue
            if of[0] != "ok" or exact_nums is None:
                continue
            structf, numsf = of[1]
            numsf = flat(numsf)
            if len(numsf) != len(exact_nums) or [len(k) for k in structf] != [len(k) for k in struct]:
                res.violation("representation_dependent", f"{where} [{rep}]: result has a different shape ({len(numsf)} numbers vs "
                              f"{len(exact_nums)})", rep=rep, **tags)
                continue
            worst = 0.0
            for g, e in zip(numsf, exact_nums):
                worst = max(worst, abs(float(g) - float(e)) / max(1.0, abs(float(e))))
            for kf, ke in zip(structf, struct):
                for g, e in zip(kf, ke):
                    worst = max(worst, abs(float(g) - float(e)) / max(1.0, abs(float(e))))
            if not worst <= 1e-9:
                res.violation("representation_dependent", f"{where} [{rep}]: deviates from the exact result by {worst:.3e} (relative)",
                              rep=rep, **tags)
            res.maxi("max_float_deviation_e15", int(worst * 1e15))
    if not big:
        for name in CUSTOM_SCRIPTS:
            res.transition()
            oc = lib.outcome(run_script, name, U, p, P, "custom")
            res.state((tuple(U), name, "custom"))
            res.nontriv((tuple(U), name, "custom"))
            res.outcome(f"custom:{name}:{'ok' if oc[0] == 'ok' else oc[1]}")
            tags = dict(script=name, rep="custom", big=False)
            where = f"script {name} on U={U} with the minimal point type"
            if oc[0] != "ok":
                res.violation("exception", f"{where}: raised {oc[1]}: {oc[2]}", exc=oc[1], **tags)
                continue
            got = flat(oc[1][1])
            exp = reference(name, U, p, P)
            if name == "eval":
                exp = exp[:len(exp) // 2] * 2
            expxy = []
            for v in exp:
                expxy += [F(v), None]
            # y = 2 - x/3 is an affine image: with partition of unity sum(coef)=1 the y component of every result is 2 - x/3
            xs = got[0::2]
            ys = got[1::2]
            if [lib.to_frac(v) for v in xs][:len(exp)] != [F(v) for v in exp] or any(lib.to_frac(y) != 2 - lib.to_frac(x) / 3 for x, y in zip(xs, ys)):
                res.violation("wrong_exact_value", f"{where}: components {xs[:6]}.. {ys[:6]}.. differ from the reference", **tags)
    res.observe(sorted(res.outcomes.items()))
