"""C10 - quadrature rules are exact to their order; spline integrals are exact; independent of call history."""
import itertools
import math
from fractions import Fraction as F

from ..engine import alphabets as al
from ..engine import env, lib
from ..engine.bfs import bfs
from ..ref import bspline as rb

ID = "C10"
RULE = ("bfs over call histories of the memoised rule tables: state = exact contents of the module-level memo "
        "dictionaries, rebuilt by resetting them to their import-time contents and replaying the history; menu = the "
        "eight rule entry points x n in 1..6 (9 thorough) plus Integrate.scalar with each method; every history up to "
        "depth 3 (4 thorough): the value returned for (family, n) in every reachable state must equal the value returned "
        "from the pristine state and existing entries are never altered. enum: exactness conditions of every rule for "
        "n <= 16 (24); Integrate.scalar on every knot vector x unit control vectors x methods; Integrate.function on "
        "monomials; Integrate.lenght on polylines. non-trivial = distinct (state, call) pairs that changed a table, plus "
        "distinct (rule, n) and integral cases")
ASSUMPTIONS = ["the memo tables are the dict class attributes of heavy.NodeSample / heavy.IntegratorArray (found generically)",
               "float-valued families (chebyshev, gauss) compared at 1e-9 for n in the range where the library's own "
               "construction (inverse of a Bernstein collocation matrix) is well conditioned; see bounds",
               "linearity of the integral in the control points"]
FAMILIES = ("closed", "open", "chebyshev", "gauss")
METHODS = {"closed": "closed-newton-cotes", "open": "open-newton-cotes", "chebyshev": "chebyshev", "gauss": "gauss-legendre"}


def bounds(tier, seed):
    q = tier == "quick"
    return {"hist_nmax": 6 if q else 9, "hist_depth": 3 if q else 4, "rule_nmax": 16 if q else 24,
            "float_rule_nmax": 10, "pmax": 3, "kmax": 2, "alphabets": al.tier_alphabets(tier, seed)}


def nodes_fn(fam):
    NS = lib.heavy.NodeSample
    return {"closed": NS.closed_linspace, "open": NS.open_linspace, "chebyshev": NS.chebyshev, "gauss": NS.gauss_legendre}[fam]


def weights_fn(fam):
    IA = lib.heavy.IntegratorArray
    return {"closed": IA.closed_newton_cotes, "open": IA.open_newton_cotes, "chebyshev": IA.chebyshev,
            "gauss": IA.gauss_legendre}[fam]


def hist_menu(nmax):
    m = []
    for fam in FAMILIES:
        for n in range(1, nmax + 1):
            if fam == "closed" and n < 2:
                continue
            m.append(("nodes", fam, n))
            m.append(("weights", fam, n))
    for fam in FAMILIES:
        m.append(("scalar", fam, 3))
    return m


def call(entry):
    kind, fam, n = entry
    if kind == "nodes":
        return lib.tagdeep(nodes_fn(fam)(n))
    if kind == "weights":
        return lib.tagdeep(weights_fn(fam)(n))
    c = lib.mk_curve([F(0)] * 3 + [F(1, 2)] + [F(1)] * 3, [F(1), F(2), F(-1), F(3)])
    return lib.tagdeep(lib.Integrate.scalar(c, None, METHODS[fam], n))


def cases(tier, seed):
    b = bounds(tier, seed)
    m = hist_menu(b["hist_nmax"])
    for e in range(len(m)):
        yield ("hist", e, b["hist_depth"], b["hist_nmax"], 0)
    for fam in FAMILIES:
        for n in range(1, b["rule_nmax"] + 1):
            yield ("rule", fam, n, b["float_rule_nmax"], 0)
    for K in b["alphabets"]:
        for p, U in al.knotvectors(K, b["pmax"], b["kmax"]):
            yield ("integral", K, p, U, 0)
    for i in range(len(POLYLINES) + len(JUMPS)):
        yield ("length", i, 0, 0, 0)


def describe(case):
    if case[0] == "hist":
        return {"history_first_call": hist_menu(case[3])[case[1]], "depth": case[2]}
    return {"kind": case[0], "args": [str(x) for x in case[1:4]]}


POLYLINES = []
for _n, _kn in ((2, [0, 1, 3]), (3, [0, F(1, 2), 1, 4]), (4, [-1, 0, 2, 3, 7]), (2, [0.0, 0.25, 1.0])):
    _g = [(0, 0), (3, 4), (3, 0), (0, 4), (6, 8), (-5, 12)]
    for _perm in itertools.permutations(range(6), _n + 1):
        if _perm[0] > 1:
            continue
        _pts = [_g[i] for i in _perm]
        POLYLINES.append((_kn, _pts))
POLYLINES = POLYLINES[::7]
# degree-1 curves that jump at a double knot: (knot vector, vertices, exact length without the jump)
JUMPS = [
    ([0, 0, 1, 1, 3, 3], [(0, 0), (3, 4), (10, 0), (10, 5)]),
    ([0, 0, 1, 2, 2, 3, 5, 5], [(0, 0), (3, 4), (3, 0), (-5, 12), (-5, 0), (0, 0)]),
    ([0.0, 0.0, 0.5, 0.5, 1.0, 1.0], [(0, 0), (6, 8), (0, 4), (3, 0)]),
]


def run_case(case, res):
    kind = case[0]
    if kind == "hist":
        return run_hist(case, res)
    if kind == "rule":
        return run_rule(case, res)
    if kind == "integral":
        return run_integral(case, res)
    return run_length(case, res)


# ---------------------------------------------------------------- histories
_PRISTINE_VALUE = {}


def pristine_value(entry):
    if entry not in _PRISTINE_VALUE:
        env.reset_memo()
        _PRISTINE_VALUE[entry] = lib.outcome(call, entry)
    return _PRISTINE_VALUE[entry]


def run_hist(case, res):
    _, first, depth, nmax, _ = case
    menu = hist_menu(nmax)

    def build(hist):
        env.reset_memo()
        for e in hist:
            lib.outcome(call, e)

    def key(hist):
        build(hist)
        return env.memo_state()

    def chk(hist, path):
        pass

    def expand(hist, path):
        entries = menu if path else menu[first:first + 1]
        for e in entries:
            build(hist)
            before = env.memo_state()
            res.transition()
            out = lib.outcome(call, e)
            after = env.memo_state()
            want = pristine_value(e)
            tags = dict(entry=e[0], family=e[1])
            if out != want:
                res.violation("history_dependent", f"after history {list(hist)}: {e} returned {out} but {want} from the "
                              "pristine tables", **tags)
            bd = {k: dict(v) for k, v in before}
            ad = {k: dict(v) for k, v in after}
            for tbl, ent in bd.items():
                for n, v in ent.items():
                    if ad.get(tbl, {}).get(n) != v:
                        res.violation("entry_altered", f"after history {list(hist)}: call {e} altered table {tbl}[{n}]", **tags)
            if after != before:
                res.nontriv((before, e))
                yield (str(e), hist + (e,))
            res.outcome("changed" if after != before else "unchanged")

    bfs([()], key, chk, expand, depth, res)
    env.reset_memo()
    res.trace(res.transitions)
    res.observe((res.transitions, sorted(res.outcomes.items())))


# ---------------------------------------------------------------- rules
def run_rule(case, res):
    _, fam, n, fmax, _ = case
    if fam == "closed" and n < 2:
        return
    env.reset_memo()
    res.state((fam, n))
    res.transition()
    on = lib.outcome(nodes_fn(fam), n)
    ow = lib.outcome(weights_fn(fam), n)
    tags = dict(family=fam)
    if on[0] != "ok" or ow[0] != "ok":
        res.violation("exception", f"{fam} rule n={n}: {on[:2]} {ow[:2]}", **tags)
        return
    xs, ws = list(on[1]), list(ow[1])
    if len(xs) != n or len(ws) != n:
        res.violation("shape", f"{fam} rule n={n}: {len(xs)} nodes, {len(ws)} weights", **tags)
        return
    exact = all(lib.is_exact_number(v) for v in xs + ws)
    if fam in ("closed", "open") and not exact:
        res.violation("type", f"{fam} rule n={n} is not Fraction-valued", **tags)
    if fam == "chebyshev" and n > fmax:
        res.outcome("chebyshev_rule_beyond_conditioning_range")
    X = [lib.to_frac(v) for v in xs]
    W = [lib.to_frac(v) for v in ws]
    tol = F(0) if exact else F(1, 10 ** 9)
    if any(not (0 <= x <= 1) for x in X) or any(X[i] >= X[i + 1] for i in range(n - 1)):
        res.violation("nodes", f"{fam} rule n={n}: nodes not increasing in [0,1]: {xs}", **tags)
    if abs(sum(W) - 1) > tol:
        res.violation("weights_sum", f"{fam} rule n={n}: weights sum to {float(sum(W))}", **tags)
    order = 2 * n if fam == "gauss" else n
    if fam != "chebyshev" or n <= fmax:
        for k in range(order):
            res.transition()
            val = sum(w * x ** k for w, x in zip(W, X))
            if abs(val - F(1, k + 1)) > tol:
                res.violation("order", f"{fam} rule n={n}: integral of u^{k} = {float(val)} != 1/{k + 1}", **tags)
                break
    res.nontriv((fam, n))
    res.outcome(f"rule_{fam}")
    res.observe((fam, n, lib.tagdeep(xs), lib.tagdeep(ws)))


# ---------------------------------------------------------------- integrals
def run_integral(case, res):
    _, K, p, U, _ = case
    U = list(U)
    n = len(U) - p - 1
    env.reset_memo()
    vectors = list(al.unit_vectors(n)) + [al.generic_points(n)]
    # float and int-knot curves on numerically equal knots are integrated FIRST: the exact integrals below must not depend
    # on what was computed before for another number type (value-keyed tables)
    for rep in ("float", "int"):
        res.transition()
        lib.outcome(lib.Integrate.scalar, lib.mk_curve(U, vectors[-1], None, rep))
    for P in vectors:
        res.state((U, tuple(P)))
        expect = sum(P[i] * (U[i + p + 1] - U[i]) / (p + 1) for i in range(n))
        c = lib.mk_curve(U, P)
        res.transition()
        o = lib.outcome(lib.Integrate.scalar, c)
        tags = dict(api="scalar", method="default", rep="frac")
        where = f"U={U} P={P}"
        if o[0] != "ok":
            res.violation("exception", f"Integrate.scalar raised {o[1]}: {o[2]}; {where}", exc=o[1], **tags)
        elif lib.to_frac(o[1]) != expect:
            res.violation("integral", f"Integrate.scalar = {o[1]} != {expect}; {where}", **tags)
        elif not lib.is_exact_number(o[1]):
            res.violation("type", f"Integrate.scalar returned {type(o[1]).__name__} for rational data; {where}", **tags)
        if lib.snap_curve(c) != lib.snap_curve(lib.mk_curve(U, P)):
            res.violation("mutated", f"Integrate.scalar changed the curve; {where}", **tags)
    P = al.generic_points(n)
    expect = sum(P[i] * (U[i + p + 1] - U[i]) / (p + 1) for i in range(n))
    disc = any(rb.mult(U, k) == p + 1 for k in rb.knots_of(U)[1:-1])  # the curve may jump at an interior knot
    for rep in ("frac", "float"):
        c = lib.mk_curve(U, P, None, rep)
        for fam, meth in METHODS.items():
            for nn in (None, p + 1, p + 3):
                if fam == "closed" and (nn or p + 1) < 2:
                    continue
                res.transition()
                o = lib.outcome(lib.Integrate.scalar, c, None, meth, nn)
                tags = dict(api="scalar", method=fam, rep=rep, discontinuous=disc)
                if o[0] != "ok":
                    res.violation("exception", f"Integrate.scalar(method={meth}, nnodes={nn}) raised {o[1]}: {o[2]}; U={U}",
                                  exc=o[1], **tags)
                elif not lib.close(o[1], expect):
                    res.violation("integral", f"Integrate.scalar(method={meth}, nnodes={nn}) = {o[1]} vs {expect}; U={U}", **tags)
                res.outcome("scalar_method")
    # Integrate.function on monomials u^k, k < nnodes: exact piecewise integral
    kv = lib.mk_kv(U)
    for fam, meth in METHODS.items():
        for nn in (1, 2, 3, 5):
            if fam == "closed" and nn < 2:
                continue
            for k in range(nn if fam != "gauss" else 2 * nn):
                if k > 6:
                    break
                res.transition()
                expect = (U[-1] ** (k + 1) - U[0] ** (k + 1)) / (k + 1)
                o = lib.outcome(lib.Integrate.function, kv, (lambda u, k=k: u ** k), meth, nn)
                tags = dict(api="function", method=fam)
                if o[0] != "ok":
                    res.violation("exception", f"Integrate.function(u^{k}, {meth}, {nn}) raised {o[1]}: {o[2]}; U={U}", exc=o[1], **tags)
                    break
                exactfam = fam in ("closed", "open")
                if (lib.to_frac(o[1]) != expect) if exactfam else not lib.close(o[1], expect):
                    res.violation("integral", f"Integrate.function(u^{k}, {meth}, {nn}) = {o[1]} != {expect}; U={U}", **tags)
                    break
                res.outcome("function")
    res.nontriv((U,))
    res.observe(sorted(res.outcomes.items()))


def run_length(case, res):
    if case[1] >= len(POLYLINES):
        U, pts = JUMPS[case[1] - len(POLYLINES)]
        kn = sorted(set(U))
        Ue = [lib.to_frac(k) for k in U]
        # segment i joins control points i, i+1 unless they sit on both sides of a double knot (a jump)
        expect = sum(math.dist(pts[i], pts[i + 1]) for i in range(len(pts) - 1) if Ue[i + 1] != Ue[i + 2])
    else:
        kn, pts = POLYLINES[case[1]]
        U = [kn[0]] + list(kn) + [kn[-1]]
        expect = sum(math.dist(a, b) for a, b in zip(pts[:-1], pts[1:]))
    res.state(("polyline", tuple(map(str, U)), tuple(pts)))
    isfloat = any(isinstance(k, float) for k in kn)
    c = lib.Curve(U, lib.np.array(pts, dtype="float64" if isfloat else "int64"))
    for meth in (None,) + tuple(METHODS.values()):
        res.transition()
        # the derivative of a polyline has degree 0: the closed rule needs at least two nodes
        nn = 2 if meth == "closed-newton-cotes" else None
        o = lib.outcome(lib.Integrate.lenght, c, None, meth, nn)
        tags = dict(api="lenght", method={v: k for k, v in METHODS.items()}.get(meth, "default"), discontinuous=len(pts) > 2)
        if o[0] != "ok":
            res.violation("exception", f"Integrate.lenght({meth}) raised {o[1]}: {o[2]}; U={U} pts={pts}", exc=o[1], **tags)
        elif not lib.close(o[1], expect):
            res.violation("integral", f"Integrate.lenght({meth}) = {o[1]} != {expect}; U={U} pts={pts}", **tags)
        res.outcome("lenght")
    res.nontriv(("polyline", case[1]))
    res.observe(sorted(res.outcomes.items()))
