"""C15 - curves stay consistent; failed operations are atomic; operands stay untouched.

Explicit-state BFS over histories of public Curve operations on real objects rebuilt from exact snapshots.
Only state is observed here (functional correctness of results is the business of C04-C14)."""
import copy
from fractions import Fraction as F

from ..engine import lib
from ..engine.bfs import bfs
from ..engine.env import EvalHorizon, Watchdog
from ..ref import bspline as rb

ID = "C15"
RULE = ("bfs: states are exact typed snapshots (knots, control points, weights) of a curve (and of a partner curve built from the "
        "same KnotVector object - with or without the same array of points and list of weights - or as a copy, for the aliasing roots); from 12 initial curves (polynomial/rational incl. very uneven weights, scalar/2-D, "
        "degree 0..3, Fraction/float) every entry of a ~78-entry menu of valid and invalid public Curve operations is applied "
        "to fresh real objects up to depth 2 (3). Invariant in every state: len(ctrlpoints) = npts = len(knotvector)-degree-1, "
        "len(weights) = npts, the curve evaluates at every knot, mid-span and end. Transition oracle: an operation that raises "
        "leaves receiver and every other operand bit-identical; non-mutating operations leave all operands identical "
        "whether they return or raise, and the curves they return are independent objects (their KnotVector is moved in place and they are mutated through a short history while the operands are watched); a mutation never changes the partner curve. non-trivial = distinct (state, "
        "operation) pairs that raised, or mutated the receiver")
ASSUMPTIONS = ["history depth and argument menus are bounded", "mutation through curve.knotvector.<op>() is a KnotVector operation "
               "on an aliased object and outside this property", "setting ctrlpoints/weights to None is a deliberate reset and not in the menu"]
DETERMINISM_CASES = 30
DEEP_ROOTS = ("p1-poly", "p0", "alias-same-knotvector")


def bounds(tier, seed):
    return {"depth": 3 if tier == "quick" else 4, "roots": len(ROOTS), "state_budget": 1000 if tier == "quick" else 5000}


Fr = F
ROOTS = [
    ("p1-poly", ([Fr(-1), Fr(-1), Fr(0), Fr(2), Fr(2)], [Fr(2), Fr(-3), Fr(5)], None), None),
    ("p2-rational", ([Fr(-1)] * 3 + [Fr(1, 3)] + [Fr(2)] * 3, [Fr(2), Fr(-3), Fr(5), Fr(-7)], [Fr(1), Fr(2), Fr(3), Fr(1, 2)]), None),
    ("p0", ([Fr(-1), Fr(0), Fr(2)], [Fr(2), Fr(-3)], None), None),
    ("p3-bezier-2d", ([Fr(0)] * 4 + [Fr(1)] * 4, [(Fr(0), Fr(0)), (Fr(1), Fr(2)), (Fr(2), Fr(-1)), (Fr(3), Fr(0))], None), None),
    ("p2-float", ([0.0, 0.0, 0.0, 0.5, 0.5, 1.0, 1.0, 1.0], [1.0, 2.0, -1.0, 0.5, 3.0], None), None),
    ("p1-float-2d-rational", ([0.0, 0.0, 0.25, 1.0, 1.0], [(0.0, 0.0), (1.0, 2.0), (3.0, 1.0)], [1.0, 2.0, 1.0]), None),
    ("p2-refined", ([Fr(-1)] * 3 + [Fr(0), Fr(1)] + [Fr(2)] * 3, [Fr(1), Fr(1, 2), Fr(1, 2), Fr(7, 4), Fr(4)], None), None),
    ("p2-elevated-line-2d", ([Fr(0)] * 3 + [Fr(1)] * 3, [(Fr(0), Fr(0)), (Fr(1), Fr(1, 2)), (Fr(2), Fr(1))], None), None),
    # very uneven weights: the projected denominator of a forced knot removal changes sign (the request is refused)
    ("p2-rational-uneven", ([Fr(0)] * 3 + [Fr(1, 3), Fr(2, 3)] + [Fr(1)] * 3, [Fr(2), Fr(-3), Fr(5), Fr(-7), Fr(11)],
                            [Fr(1), Fr(1, 50), Fr(1, 50), Fr(1, 50), Fr(1)]), None),
    ("alias-same-knotvector", ([Fr(-1), Fr(-1), Fr(1, 3), Fr(2), Fr(2)], [Fr(2), Fr(-3), Fr(5)], None), "shared"),
    ("alias-copy", ([Fr(-1)] * 3 + [Fr(2)] * 3, [Fr(2), Fr(-3), Fr(5)], [Fr(1), Fr(2), Fr(1)]), "copy"),
    # two curves built from the same KnotVector object AND the same numpy array of points and list of weights
    ("alias-same-data", ([0.0, 0.0, 0.0, 1.0, 1.0, 1.0], [(1.0, 2.0), (3.0, 4.0), (5.0, 7.0)], [1.0, 2.0, 3.0]), "shared_data"),
]


def freeze(x):
    if x is None:
        return None
    if isinstance(x, lib.np.ndarray):
        x = x.tolist()
    if isinstance(x, (list, tuple)):
        return tuple(freeze(y) for y in x)
    if isinstance(x, lib.np.floating):
        return float(x)
    if isinstance(x, lib.np.integer):
        return int(x)
    return x


def state_of(c, partner=None, mode=None):
    s = (freeze(tuple(c.knotvector)), freeze(c.ctrlpoints), freeze(c.weights))
    if partner is None:
        return (s, None, None)
    return (s, (freeze(tuple(partner.knotvector)), freeze(partner.ctrlpoints), freeze(partner.weights)), mode)


def key(state):
    return lib.tagdeep(state[:2]) + (state[2],)


def pts_arg(P):
    if P is None:
        return None
    if isinstance(P[0], tuple):
        isf = any(isinstance(v, float) for pt in P for v in pt)
        arr = lib.np.empty((len(P), len(P[0])), dtype="float64" if isf else object)
        for i, pt in enumerate(P):
            for j, v in enumerate(pt):
                arr[i, j] = v
        return arr
    return list(P)


def build(state):
    (U, P, W), partner, mode = state
    if partner is not None and mode == "shared" and partner[0] == U:
        kv = lib.KnotVector(list(U))
        c = lib.Curve(kv, pts_arg(P), None if W is None else list(W))
        d = lib.Curve(kv, pts_arg(partner[1]), None if partner[2] is None else list(partner[2]))
        return c, d
    if partner is not None and mode == "shared_data" and partner == (U, P, W):
        kv, arr, wl = lib.KnotVector(list(U)), pts_arg(P), None if W is None else list(W)
        return lib.Curve(kv, arr, wl), lib.Curve(kv, arr, wl)
    c = lib.Curve(list(U), pts_arg(P), None if W is None else list(W))
    d = None
    if partner is not None:
        d = lib.Curve(list(partner[0]), pts_arg(partner[1]), None if partner[2] is None else list(partner[2]))
    return c, d


def isfloat(U):
    return any(isinstance(k, float) for k in U)


def menu(state):
    """(name, arg, mutating, label)"""
    (U, P, W), _, _ = state
    Ue = [lib.to_frac(k) for k in U]
    p = rb.degree_of(Ue)
    n = len(U) - p - 1
    ks = rb.knots_of(Ue)
    flt = isfloat(U)
    L = (lambda x: float(x)) if flt else (lambda x: F(x))
    mid = ks[0] + (ks[1] - ks[0]) * F(2, 5)
    a, b = ks[0], ks[-1]
    interior = ks[1:-1]
    m = []
    m += [("knot_insert", [L(mid)], True, "mid")]
    if interior:
        k0 = next((k for k in U if lib.to_frac(k) == interior[0]))
        m += [("knot_insert", [k0], True, "existing"), ("knot_insert", [k0] * (p + 2), True, "excess"),
              ("knot_remove", [k0], True, "existing"), ("knot_remove_forced", [k0], True, "existing"),
              ("knot_clean_nodes", [k0], True, "existing"),
              # several nodes in one request, the later ones impossible: all or nothing
              ("knot_remove", [k0, L(b + 1)], True, "existing_then_outside"),
              ("knot_remove", [k0] * (sum(1 for k in Ue if k == interior[0]) + 1), True, "too_many"),
              ("knot_remove", [k0, U[-1]], True, "existing_then_end")]
    m += [("knot_insert", [L(a - 1)], True, "below"), ("knot_insert", [L(b + 1)], True, "above"),
          ("knot_insert", [U[0], U[-1]], True, "balanced_ends"), ("knot_insert", ["asd", 3, None], True, "nonnumeric"),
          ("knot_insert", [L(mid), L(b + 1)], True, "mid_and_above"),
          ("knot_remove", [L(mid)], True, "absent"), ("knot_remove", [U[0]], True, "end"), ("knot_remove", ["a"], True, "nonnumeric"),
          ("knot_clean", None, True, ""), ("degree_increase", 1, True, "one"), ("degree_increase", 0, True, "zero"),
          ("degree_increase", -1, True, "negative"), ("degree_decrease", 1, True, "one"), ("degree_decrease_forced", 1, True, "one"),
          ("degree_decrease", 0, True, "zero"), ("degree_set", p + 1, True, "up"), ("degree_set", p - 1, True, "down"),
          ("degree_set", -1, True, "negative"), ("degree_set", "a", True, "nonnumeric"), ("degree_clean", None, True, ""),
          ("clean", None, True, "")]
    finer = sorted(list(U) + [L(mid)], key=lambda v: lib.to_frac(v))
    m += [("set_knotvector", finer, True, "finer")]
    if interior:
        coarser = [k for k in U]
        coarser.remove(next(k for k in U if lib.to_frac(k) == interior[0]))
        m += [("set_knotvector", coarser, True, "coarser")]
    m += [("set_knotvector", [k + 1 for k in U], True, "other_interval"), ("set_knotvector", list(U)[:-1], True, "malformed"),
          ("set_knotvector", "asd", True, "nonnumeric")]
    scal = not isinstance(P[0], tuple)
    newP = [P[(i + 1) % n] for i in range(n)]
    m += [("set_ctrlpoints", newP, True, "right"), ("set_ctrlpoints", newP[:-1] if n > 1 else newP + newP, True, "wrong_length"),
          ("set_ctrlpoints", "asd", True, "string"), ("set_ctrlpoints", [object()] * n, True, "not_points")]
    one = 1.0 if flt else F(1)
    m += [("set_weights", [one * (i + 1) for i in range(n)], True, "right"), ("set_weights", [one] * (n + 1), True, "wrong_length"),
          ("set_weights", [one if i else -one for i in range(n)] if n > 1 else [0 * one], True, "sign_change"),
          ("set_weights", ["a"] * n, True, "nonnumeric")]
    nodes = [a + (b - a) * F(i, n + 1) for i in range(n + 2)]
    data = [(P[i % n]) for i in range(n + 2)]
    m += [("fit_points", (data, [L(z) for z in nodes]), True, "valid"), ("fit_points", (data[:max(1, n - 1)], None), True, "too_few"),
          ("fit_points", (data, [L(z) for z in nodes[:-1]]), True, "length_mismatch"),
          ("fit_curve", "same_interval", True, "valid"), ("fit_curve", "other_interval", True, "other_interval"),
          ("fit_function", "line", True, "valid"), ("fit_function", "raises", True, "callable_raises")]
    # non-mutating
    m += [("eval", L(mid), False, "inside"), ("eval", [L(a), L(mid), L(b)], False, "sequence"), ("eval", L(b + 1), False, "outside"),
          ("eval", "a", False, "nonnumeric"), ("split", [L(mid)], False, "mid"), ("split", None, False, "all"),
          ("split", [L(b + 1)], False, "outside"), ("fraction", None, False, ""), ("copy", None, False, ""),
          ("deepcopy", None, False, ""), ("neg", None, False, ""), ("str", None, False, "")]
    for op in ("add", "sub", "mul", "truediv", "eq", "or"):
        m += [(op, "same_interval", False, "same"), (op, "other_interval", False, "other")]
    m += [("add", "scalar", False, "scalar"), ("mul", "scalar", False, "scalar"), ("truediv", "zero", False, "zero"),
          ("rtruediv", "scalar", False, "scalar"), ("eq", "noncurve", False, "noncurve"),
          ("derivate", None, False, ""), ("integrate", None, False, ""), ("other_fit_curve", None, False, ""),
          ("projection", None, False, ""), ("intersection", None, False, "")]
    return m


def partner_curve(U, P, W, which):
    """a second operand for binary operations, same or shifted interval (scalar or matching dimension)"""
    Ue = [lib.to_frac(k) for k in U]
    flt = isfloat(U)
    a, b = Ue[0], Ue[-1]
    if which == "other_interval":
        a, b = a + 1, b + 1
    V = [a, a, (a + b) / 2, b, b]
    V = [float(v) for v in V] if flt else V
    if isinstance(P[0], tuple):
        d = len(P[0])
        Q = [tuple((1.5 if flt else F(3, 2)) * (i + 1 + j) for j in range(d)) for i in range(3)]
    else:
        Q = [(2.0 if flt else F(2)) + i for i in range(3)]
    return lib.Curve(V, pts_arg(Q))


def apply(c, name, arg, other):
    if name == "knot_insert":
        return c.knot_insert(arg)
    if name == "knot_remove":
        return c.knot_remove(arg)
    if name == "knot_remove_forced":
        return c.knot_remove(arg, None)
    if name == "knot_clean_nodes":
        return c.knot_clean(arg)
    if name == "knot_clean":
        return c.knot_clean()
    if name == "degree_increase":
        return c.degree_increase(arg)
    if name == "degree_decrease":
        return c.degree_decrease(arg)
    if name == "degree_decrease_forced":
        return c.degree_decrease(arg, None)
    if name == "degree_set":
        c.degree = arg
        return None
    if name == "degree_clean":
        return c.degree_clean()
    if name == "clean":
        return c.clean()
    if name == "set_knotvector":
        c.knotvector = arg
        return None
    if name == "set_ctrlpoints":
        c.ctrlpoints = pts_arg(arg) if isinstance(arg, list) and arg and isinstance(arg[0], tuple) else arg
        return None
    if name == "set_weights":
        c.weights = arg
        return None
    if name == "fit_points":
        pts, nodes = arg
        pts = pts_arg(pts)
        return c.fit_points(pts, nodes) if nodes is not None else c.fit_points(pts)
    if name == "fit_curve":
        return c.fit_curve(other)
    if name == "fit_function":
        if arg == "raises":
            def f(u):
                raise RuntimeError("user function failed")
        else:
            p0 = c.ctrlpoints[0]

            def f(u):
                return p0 * u
        return c.fit_function(f)
    if name == "eval":
        return c(arg)
    if name == "split":
        return c.split(arg) if arg is not None else c.split()
    if name == "fraction":
        return c.fraction()
    if name == "copy":
        return copy.copy(c)
    if name == "deepcopy":
        return copy.deepcopy(c)
    if name == "neg":
        return -c
    if name == "str":
        return str(c)
    if name in ("add", "sub", "mul", "truediv", "eq", "or"):
        if arg == "scalar":
            o = 2
        elif arg == "zero":
            o = 0
        elif arg == "noncurve":
            o = "x"
        else:
            o = other
        if name == "or":
            # join needs an adjacent right operand: shift the partner to start at this curve's end
            return c | other
        return {"add": lambda: c + o, "sub": lambda: c - o, "mul": lambda: c * o, "truediv": lambda: c / o, "eq": lambda: c == o}[name]()
    if name == "rtruediv":
        return 2 / c
    if name == "derivate":
        return lib.Derivate(c)
    if name == "integrate":
        return lib.Integrate.scalar(c)
    if name == "other_fit_curve":
        t = lib.Curve(list(c.knotvector)[:1] * 2 + list(c.knotvector)[-1:] * 2)
        return t.fit_curve(c)
    if name == "projection":
        pt = c.ctrlpoints[0]
        return lib.Projection.point_on_curve(pt, c)
    if name == "intersection":
        return lib.Intersection.curve_and_curve(c, other)
    raise KeyError(name)


def check_invariant(res, c, where, tags):
    try:
        n = c.npts
        ok = len(c.knotvector) - c.degree - 1 == n and c.ctrlpoints is not None and len(c.ctrlpoints) == n
        if c.weights is not None:
            ok = ok and len(c.weights) == n
    except Exception as e:  # noqa: BLE001
        res.violation("invariant", f"{where}: inspecting the curve raised {e!r}", inv="inspect", **tags)
        return
    if not ok:
        res.violation("invariant", f"{where}: npts {n}, len(knotvector) {len(c.knotvector)}, degree {c.degree}, ctrlpoints "
                      f"{None if c.ctrlpoints is None else len(c.ctrlpoints)}, weights {None if c.weights is None else len(c.weights)}",
                      inv="lengths", **tags)
        return
    ks = sorted(set(c.knotvector))
    nodes = list(ks) + [(x + y) / 2 for x, y in zip(ks[:-1], ks[1:])]
    for u in nodes:
        res.transition()
        o = lib.outcome(c, u)
        if o[0] != "ok":
            res.violation("invariant", f"{where}: evaluation at {u} raised {o[1]}: {o[2]}", inv="evaluates", **tags)
            return


def expand(res, only=None):
    def _expand(state, path):
        entries = menu(state)
        if only is not None and not path:
            entries = entries[only:only + 1]
        before = key(state)
        for name, arg, mutating, lab in entries:
            res.transition()
            try:
                c, d = build(state)
            except Exception as e:  # noqa: BLE001
                res.violation("rebuild", f"state {state} cannot be rebuilt: {e!r}", op=name)
                return
            (U, P, W) = state[0]
            other = None
            if isinstance(arg, str) and arg in ("same_interval", "other_interval"):
                other = partner_curve(U, P, W, arg)
                if name == "or" and arg == "same_interval":
                    other = partner_curve([k for k in U], P, W, arg)  # generic points: does not start where c ends
                    span = lib.to_frac(U[-1]) - lib.to_frac(U[0])
                    other.knotvector.shift(float(span) if isfloat(U) else span)
            if name in ("intersection",):
                other = partner_curve(U, P, W, "same_interval")
                if not isinstance(P[0], tuple):
                    other = None
            osnap = None if other is None else lib.snap_curve(other)
            where = f"history {list(path)} state {state[0]} op {name}({arg}) [{lab}]"
            tags = dict(op=name, arg=lab)
            if name in ("projection", "intersection") and (other is None and name == "intersection" or not isinstance(P[0], tuple)):
                continue  # planar operations need vector-valued points
            try:
                with EvalHorizon(20000), Watchdog(120.0):
                    o = lib.outcome(apply, c, name, arg, other)
            except lib.HorizonExceeded:
                # termination of projection / intersection is C19's and C20's business; nothing to observe here except
                # that the operands are still intact
                res.outcome("horizon:" + name)
                if key(state_of(c, d, state[2])) != before or (other is not None and lib.snap_curve(other) != osnap):
                    res.violation("operand_modified", f"{where}: an operand changed before the horizon was reached", **tags)
                continue
            after = state_of(c, d, state[2])
            res.outcome(f"{'mut' if mutating else 'pure'}:{'ok' if o[0] == 'ok' else 'raised'}")
            if other is not None and lib.snap_curve(other) != osnap:
                res.violation("operand_modified", f"{where}: the second operand changed", **tags)
            if d is not None and key(after)[1] != before[1]:
                res.violation("partner_modified", f"{where}: the partner curve ({state[2]}) changed: {after[1]}", mode=state[2], **tags)
            changed = key(after)[0] != before[0]
            if o[0] != "ok":
                res.nontriv((before, name, lab))
                if changed:
                    res.violation("not_atomic", f"{where}: raised {o[1]} ({o[2]}) and left the curve as knots {after[0][0]} ctrlpoints "
                                  f"{after[0][1]} weights {after[0][2]}", exc=o[1], **tags)
                continue
            if not mutating:
                if changed:
                    res.violation("operand_modified", f"{where}: a non-mutating operation changed the receiver", **tags)
                # curves RETURNED by the operation must be independent objects: mutate them through a short history
                # (weights, insertion, elevation, control points) and look at the operands again
                returned = []
                for x in (o[1] if isinstance(o[1], (tuple, list)) else [o[1]]):
                    if isinstance(x, lib.Curve) and x is not c:
                        returned.append(x)
                if returned and name not in ("copy", "deepcopy"):
                    for r in returned[:2]:
                        try:
                            # first of all in place on the result's own KnotVector object (later steps rebind it)
                            r.knotvector.shift(1)
                        except Exception:  # noqa: BLE001
                            pass
                        try:
                            r.weights = [2 + (i % 3) for i in range(r.npts)]
                            kk = r.knotvector.knots
                            r.knot_insert([kk[0] + (kk[1] - kk[0]) / 2])
                            r.degree_increase(1)
                            r.ctrlpoints = [pt * 3 for pt in r.ctrlpoints]
                            r.knotvector.shift(1)
                        except Exception:  # noqa: BLE001
                            pass
                    if key(state_of(c, d, state[2])) != before or (other is not None and lib.snap_curve(other) != osnap):
                        res.violation("result_aliased", f"{where}: mutating the returned curve changed an operand", **tags)
                    res.outcome("result_independence_probed")
                if name in ("copy", "deepcopy"):
                    r = o[1]
                    try:
                        r.knotvector.shift(1)  # in place on the copy's own knot vector object (must not be the original's)
                        r.knot_insert([r.knotvector.knots[0] + (r.knotvector.knots[1] - r.knotvector.knots[0]) / 2])
                        r.ctrlpoints = [pt * 2 for pt in r.ctrlpoints]
                    except Exception:  # noqa: BLE001
                        pass
                    if key(state_of(c, d, state[2]))[0] != before[0]:
                        res.violation("copy_aliased", f"{where}: mutating the copy changed the original", **tags)
                continue
            if changed:
                res.nontriv((before, name, lab))
                yield (f"{name}[{lab}]", after)
    return _expand


def cases(tier, seed):
    b = bounds(tier, seed)
    for i, (name, cur, mode) in enumerate(ROOTS):
        st = root_state(i)
        # quick: the full depth for the small exact roots, one level less for the rational / float / larger ones
        depth = b["depth"] if (tier != "quick" or name in DEEP_ROOTS) else b["depth"] - 1
        for e in range(len(menu(st))):
            yield (i, depth, b["state_budget"], e)


def root_state(i):
    name, (U, P, W), mode = ROOTS[i]
    main = (freeze(tuple(U)), freeze(P), freeze(W))
    if mode is None:
        return (main, None, None)
    if mode == "shared":
        Q = [x * 2 + 1 for x in P]
        return (main, (freeze(tuple(U)), freeze(Q), None), "shared")
    if mode == "shared_data":
        return (main, main, "shared_data")
    return (main, main, "copy")


def describe(case):
    st = root_state(case[0])
    return {"root": ROOTS[case[0]][0], "first_operation": [str(x) for x in menu(st)[case[3]][:2]], "depth": case[1]}


def run_case(case, res):
    i, depth, budget, entry = case
    root = root_state(i)

    def chk(state, path):
        if not path and entry != 0:
            return
        try:
            c, d = build(state)
        except Exception as e:  # noqa: BLE001
            res.violation("rebuild", f"state reached by {list(path)} cannot be rebuilt: {e!r}")
            return
        check_invariant(res, c, f"history {list(path)} state {state[0]}", dict(op=path[-1].split("[")[0] if path else "root"))

    n, done, capped = bfs([root], key, chk, expand(res, entry), depth, res, budget)
    res.trace(res.transitions)
    res.observe((n, done, capped, res.transitions, sorted(kv for kv in res.outcomes.items() if not kv[0].startswith("horizon"))))
