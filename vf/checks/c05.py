"""C05 - knot removal is exact when possible, refused otherwise, never silently lossy."""
import itertools
from fractions import Fraction as F

from ..engine import alphabets as al
from ..engine import lib
from ..ref import bspline as rb
from ..ref import space as sp

ID = "C05"
RULE = ("enum with chained histories: (i) round trips - every knot vector of the alphabets x every admissible node multiset "
        "(size <= 2) is refined twice, once by the library's own knot_insert and once by the reference model's basis "
        "change, then knot_remove(nodes) must restore the curve exactly (polynomial, all-ones weights, generic weights; "
        "scalar and 2-D; tolerances default, 0, None; float data at 1e-9); (ii) direct removal on curves that are not "
        "refinements: every non-empty sub-multiset (size <= 2) of interior knots x control vectors {generic, {-1,0,2}^n "
        "n<=3(4)} x tolerances {default, 0, 1e-3, 10, None}; the reference decides exact removability by membership of "
        "the curve (homogeneous coordinates for rational curves) in the coarser spline space. state = (curve, nodes, "
        "tolerance) configuration; transition = one knot_remove call compared; non-trivial = distinct configurations "
        "where the removal is exact, or is inexact and the tolerance decides")
ASSUMPTIONS = ["deviation of rational curves is integrated numerically (256 midpoints per span) and only a deviation 100x above "
               "the bound counts as lossy; polynomial deviations are exact", "degrees/knot positions bounded by the alphabets",
               "for degree 0 the 'passes through the old curve at every remaining knot' clause is not asserted (unsatisfiable in general)"]
TOLS = {"default": "default", "zero": 0, "1e-3": F(1, 1000), "ten": 10, "none": None}


def bounds(tier, seed):
    q = tier == "quick"
    return {"pmax": 3, "pmax_seed_alphabet": 1 if q else 3, "kmax": 2, "small_alphabet_n": 3 if q else 4,
            "roundtrip_pairs_pmax": 2 if q else 3,
            "alphabets": al.tier_alphabets(tier, seed)}


def cases(tier, seed):
    b = bounds(tier, seed)
    for K in b["alphabets"]:
        pmax = b["pmax"] if K == "K0" else b["pmax_seed_alphabet"]
        for p, U in al.knotvectors(K, pmax, b["kmax"]):
            yield ("roundtrip", K, p, U, 2 if p <= b["roundtrip_pairs_pmax"] else 1)
            if len(set(U)) > 2:
                yield ("direct", K, p, U, b["small_alphabet_n"])
        # three (four) distinct interior knots, simple or with one doubled knot: a remaining knot need not be adjacent to a removed one
        for p, U in al.knotvectors(K, 2 if tier == "quick" else 3, 3 if tier == "quick" else 4, pmin=1, kmin=3, maxmult=2):
            if tier == "quick" and sum(1 for k in set(U) if rb.mult(list(U), k) == 2 and U[0] < k < U[-1]) > 1:
                continue
            yield ("direct", K, p, U, 0)


def describe(case):
    return {"kind": case[0], "alphabet": case[1], "degree": case[2], "knotvector": list(case[3])}


def cost(case):
    return len(case[3]) * (3 if case[0] == "roundtrip" else 1)


def numeric_sqdev(D0, D1, nsub=256):
    """midpoint-rule integral of |D0-D1|^2 per coordinate (floats) - for rational curves only"""
    tot = [0.0] * D0.dim
    bs = sorted(set(D0.breaks()) | set(D1.breaks()))
    for a, b in zip(bs[:-1], bs[1:]):
        p0, p1 = D0.piece(a, b), D1.piece(a, b)
        h = float(b - a) / nsub
        for i in range(nsub):
            u = float(a) + (i + 0.5) * h
            d0 = sum(float(c) * u ** k for k, c in enumerate(p0[3]))
            d1 = sum(float(c) * u ** k for k, c in enumerate(p1[3]))
            for c in range(D0.dim):
                v0 = sum(float(x) * u ** k for k, x in enumerate(p0[2][c])) / d0
                v1 = sum(float(x) * u ** k for k, x in enumerate(p1[2][c])) / d1
                tot[c] += (v0 - v1) ** 2 * h
    return tot


def call_remove(c, nodes, tolname, rep):
    args = [lib.conv(x, rep) for x in nodes]
    if tolname == "default":
        return lib.outcome(c.knot_remove, args)
    t = TOLS[tolname]
    return lib.outcome(c.knot_remove, args, None if t is None else (t if rep == "frac" else float(t)))


def check_remove(res, U, p, P, W, rep, nodes, tolname, how, removable_hint=None):
    """one knot_remove call on the curve (U, P, W) in lockstep with the reference"""
    res.transition()
    exact = rep == "frac"
    V = list(U)
    for x in nodes:
        V.remove(x)
    D0 = rb.denote(U, P, W, p)
    if W is None:
        removable = sp.in_space(D0, V, p)
    else:
        H = rb.denote(U, [tuple(F(w) * c for c in (pt if isinstance(pt, tuple) else (pt,))) + (F(w),) for pt, w in zip(P, W)], None, p)
        removable = sp.in_space(H, V, p)
    if removable_hint is not None and removable != removable_hint:
        raise AssertionError("reference: refinement not removable")
    c = lib.mk_curve(U, P, W, rep)
    before = lib.snap_curve(c)
    o = call_remove(c, nodes, tolname, rep)
    tol = F(1, 10 ** 9) if tolname == "default" else TOLS[tolname]
    L = max(F(1), U[-1] - U[0])
    tags = dict(how=how, rational=W is not None, tol=tolname, rep=rep, removable=removable, degree0=p == 0)
    where = f"[{how}] U={U} P={P} W={W} rep={rep} knot_remove({nodes}, tolerance={tolname})"
    res.state((lib.tagdeep(U), lib.tagdeep(P), lib.tagdeep(W), rep, tuple(nodes), tolname))
    res.outcome(f"{'removable' if removable else 'lossy'}:{tolname}:{'ok' if o[0] == 'ok' else o[1]}")
    if removable or tolname not in ("none",):
        res.nontriv((lib.tagdeep(U), lib.tagdeep(P), lib.tagdeep(W), tuple(nodes), tolname))
    if o[0] != "ok":
        if o[1] != "ValueError":
            res.violation("wrong_exception", f"{where}: raised {o[1]} ({o[2]})", exc=o[1], **tags)
        if lib.snap_curve(c) != before:
            res.violation("not_atomic", f"{where}: raised {o[1]} and the curve changed", **tags)
        if tolname == "none":
            extra = {}
            if W is not None:
                # does the constrained L2 projection of the weight function leave the positive cone?
                nodesz = rb.knots_of(V) if p >= 1 else None
                M, _ = sp.l2_projection_matrix(U, V, nodesz, p, p)
                extra["projected_weight_nonpositive"] = any(x <= 0 for x in sp.matvec(M, [F(w) for w in W]))
            res.violation("forced_refused", f"{where}: tolerance=None must always succeed, raised {o[1]}: {o[2]}", **tags, **extra)
        elif removable and (exact or tolname != "zero"):
            res.violation("refused_exact", f"{where}: exactly removable but raised {o[1]}: {o[2]}", **tags)
        return None
    got = lib.exact_kv(c.knotvector)
    if (got != V) if exact else (len(got) != len(V) or any(not lib.close(g, v, 1e-12) for g, v in zip(got, V))):
        res.violation("knots", f"{where}: knot vector {got} != old minus nodes {V}", **tags)
        return None
    if c.ctrlpoints is None or len(c.ctrlpoints) != len(V) - p - 1:
        res.violation("shape", f"{where}: {c.ctrlpoints}", **tags)
        return None
    if not exact:
        # float data: values within 1e-9 of the exact curve when the removal is exact
        if removable:
            for u in al.params(V, p):
                ov = lib.outcome(c, float(u))
                if ov[0] != "ok" or not lib.close_point(lib.to_point(ov[1]), D0.value(u)):
                    res.violation("lossy", f"{where}: value at {u}: {ov[1:]} vs {D0.value(u)}", **tags)
                    return None
        elif tol is not None and W is None and c.weights is None:
            # an inexact removal accepted on float data: the exact integral of the squared deviation of the numbers returned
            # may exceed the (absolute) tolerance by round-off only - two orders of magnitude are allowed
            Dn = rb.denote(V, [lib.to_point(x) for x in c.ctrlpoints], None, p)
            dev = max(D0.sq_dev(Dn))
            bound = 200 * F(tol) * L
            if dev > bound:
                res.violation("lossy", f"{where}: accepted with integral of squared deviation {float(dev):.3e} > {float(bound):.3e}", **tags)
                return None
        return c
    D1 = lib.curve_pw(c)
    if removable:
        if not D1.same(D0):
            res.violation("lossy", f"{where}: exactly removable, but the curve changed: ctrlpoints {c.ctrlpoints} weights {c.weights}", **tags)
            return None
    elif tol is not None:
        bound = 2 * F(tol) * L
        if W is None and c.weights is None:
            dev = max(D0.sq_dev(D1))
            if dev > bound:
                res.violation("lossy", f"{where}: accepted with integral of squared deviation {float(dev):.3e} > {float(bound):.3e}", **tags)
                return None
        else:
            dev = max(numeric_sqdev(D0, D1))
            if dev > 100 * float(bound) + 1e-12:
                res.violation("lossy", f"{where}: accepted with integral of squared deviation ~{dev:.3e} > {float(bound):.3e}", **tags)
                return None
    if tolname == "none" and p >= 1:
        for k in rb.knots_of(V):
            if D1.value(k) != D0.value(k):
                res.violation("no_interpolation", f"{where}: forced removal does not pass through the old curve at knot {k}: "
                              f"{D1.value(k)} != {D0.value(k)}", **tags)
                break
    if exact and (not lib.all_exact(c.ctrlpoints) or not lib.all_exact(c.weights)):
        res.violation("type", f"{where}: inexact numbers introduced", **tags)
    return c


def valid_multisets(U, p, size):
    ks = rb.knots_of(U)
    cand = list(ks[1:-1]) + al.midspans(U)
    if ks[0] < 0 < ks[-1] and F(0) not in cand:
        cand.append(F(0))
    out = []
    for s in range(1, size + 1):
        for combo in itertools.combinations_with_replacement(sorted(cand), s):
            V = sorted(list(U) + list(combo))
            if all(rb.mult(V, x) <= p + 1 for x in combo):
                out.append(list(combo))
    return out


def refine_ref(U, p, P, W, nodes):
    """reference refinement (exact basis change on homogeneous coordinates)"""
    V = sorted(list(U) + list(nodes))
    T = sp.basis_change(U, V, p, p)
    pts = [pt if isinstance(pt, tuple) else (pt,) for pt in P]
    scalar = not isinstance(P[0], tuple)
    if W is None:
        Q = sp.apply_matrix(T, pts)
        return V, [q[0] if scalar else q for q in Q], None
    H = [tuple(F(w) * c for c in pt) + (F(w),) for pt, w in zip(pts, W)]
    Q = sp.apply_matrix(T, H)
    W2 = [q[-1] for q in Q]
    P2 = [tuple(c / q[-1] for c in q[:-1]) for q in Q]
    return V, [x[0] if scalar else x for x in P2], W2


def run_case(case, res):
    kind, K, p, U, nsmall = case
    U = list(U)
    n = len(U) - p - 1
    gen, gen2, gw = al.generic_points(n), al.generic_points(n, 2), al.generic_weights(n)
    if kind == "roundtrip":
        for nodes in valid_multisets(U, p, nsmall):
            single = len(nodes) == 1
            configs = [(gen, None, "frac", ("default", "zero", "none")), (gen2, None, "frac", ("default",))]
            if single:
                # the float run comes first: exact removal must not depend on an earlier float run on equal knot values
                configs = [(gen, None, "float", ("default",))] + configs + [(gen, gw, "frac", ("default",))]
                if n <= 5:
                    configs += [(gen, [F(1)] * n, "frac", ("default",)), (gen2, gw, "float", ("default",))]
            for P, W, rep, tols in configs:
                V, Q, WQ = refine_ref(U, p, P, W, nodes)
                # refined once by the library itself ...
                c0 = lib.mk_curve(U, P, W, rep)
                oi = lib.outcome(c0.knot_insert, [lib.conv(x, rep) for x in nodes])
                builds = [("ref", V, Q, WQ)]
                if oi[0] == "ok" and rep == "frac":
                    U1, P1, W1 = lib.exact_curve(c0)
                    # the literal "undoes a previous knot_insert": remove on the very object that was refined
                    res.transition()
                    ol = lib.outcome(c0.knot_remove, list(nodes))
                    if ol[0] != "ok" or lib.exact_kv(c0.knotvector) != U or not lib.curve_pw(c0).same(rb.denote(U, P, W, p)) or \
                            (W is None and lib.exact_curve(c0)[1] != list(P)):
                        res.violation("not_restored", f"U={U} P={P} W={W}: knot_insert({nodes}) then knot_remove({nodes}) on the same "
                                      f"object gave {ol[:2] if ol[0] != 'ok' else lib.exact_curve(c0)}", how="live", rational=W is not None,
                                      tol="default")
                    if (U1, P1, W1) != (V, Q, WQ):
                        builds.append(("lib", U1, P1, W1))  # differs from the reference refinement (C04's business): test both
                    else:
                        res.outcome("lib_refinement_equals_reference")
                elif oi[0] != "ok":
                    res.outcome("lib_refinement_failed")
                for how, V1, Q1, W1 in builds:
                    for tolname in tols:
                        c = check_remove(res, V1, p, Q1, W1, rep, nodes, tolname, "roundtrip-" + how, removable_hint=True)
                        if c is None or rep != "frac":
                            continue
                        # restores the original exactly
                        if W is None:
                            if lib.exact_curve(c) != (U, [x for x in P], None):
                                res.violation("not_restored", f"insert {nodes} then remove: got {lib.exact_curve(c)} expected {(U, P)}",
                                              how=how, rational=False, tol=tolname)
                        elif not lib.curve_pw(c).same(rb.denote(U, P, W, p)) or lib.exact_kv(c.knotvector) != U:
                            res.violation("not_restored", f"insert {nodes} then remove (rational): knots {list(c.knotvector)}", how=how,
                                          rational=True, tol=tolname)
                res.trace()
        return res.observe(sorted(res.outcomes.items()))
    # direct removal
    interior = [k for k in rb.knots_of(U)[1:-1] for _ in range(rb.mult(U, k))]
    subsets = []
    for s in (1, 2):
        for combo in sorted(set(itertools.combinations(interior, s))):
            subsets.append(list(combo))
    vectors = [(gen, None)]
    if n <= nsmall:
        vectors += [([F(x) for x in v], None) for v in itertools.product((-1, 0, 2), repeat=n)]
    for nodes in subsets:
        for P, W in vectors:
            tols = ("default", "zero", "1e-3", "ten", "none") if P is gen else ("default", "zero", "none")
            for tolname in tols:
                check_remove(res, U, p, P, W, "frac", nodes, tolname, "direct")
        check_remove(res, U, p, gen2, None, "frac", nodes, "default", "direct")
        check_remove(res, U, p, gen2, None, "frac", nodes, "none", "direct")
        if len(nodes) == 1:
            for tolname in ("default", "none"):
                check_remove(res, U, p, gen, gw, "frac", nodes, tolname, "direct")
            # a rational curve whose weighted numerator is constant (P_i = 1/w_i): only the weight function resists
            check_remove(res, U, p, [1 / w for w in gw], gw, "frac", nodes, "default", "direct")
            # very uneven weights (one control point a million times heavier than the others)
            check_remove(res, U, p, gen, [F(10 ** 6) if i == n // 2 else F(1) for i in range(n)], "frac", nodes, "default", "direct")
            check_remove(res, U, p, gen, None, "float", nodes, "default", "direct")
            check_remove(res, U, p, gen, None, "float", nodes, "none", "direct")
            # float data far from the origin and almost removable: a refined curve moved by 1000, one control point off by 1/32
            Vr = list(U)
            Vr.remove(nodes[0])
            T = sp.basis_change(Vr, U, p, p)
            base = [x[0] for x in sp.apply_matrix(T, [(x,) for x in al.generic_points(n - 1)])]
            for j in sorted({0, n // 2, n - 1}):
                near = [1000 + x + (F(1, 32) if i == j else 0) for i, x in enumerate(base)]
                check_remove(res, U, p, near, None, "float", nodes, "default", "near-removable")
    # invalid requests: absent knot, end knot, outside
    ks = rb.knots_of(U)
    for lab, nodes in (("absent", [al.midspans(U)[0]]), ("end", [ks[0]]), ("outside", [ks[-1] + 1]),
                       ("too_many", [ks[1]] * (rb.mult(U, ks[1]) + 1))):
        res.transition()
        c = lib.mk_curve(U, gen)
        before = lib.snap_curve(c)
        o = lib.outcome(c.knot_remove, nodes)
        if o[0] == "ok" or o[1] != "ValueError":
            res.violation("invalid_request", f"U={U} knot_remove({nodes}) [{lab}] gave {o[:2]} instead of ValueError", arg=lab)
        if lib.snap_curve(c) != before:
            res.violation("not_atomic", f"U={U} knot_remove({nodes}) [{lab}] changed the curve", arg=lab, how="invalid")
        res.outcome("invalid_" + lab)
    res.observe(sorted(res.outcomes.items()))
