"""C20 - intersection returns exactly the parameter pairs where the curves meet."""
import itertools
import math
from fractions import Fraction as F

from ..engine import lib
from ..engine.env import EvalHorizon
from ..ref import geom

ID = "C20"
RULE = ("enum: every ordered pair of straight segments with endpoints on the integer grid {0..3}^2 (quick; {0..4}^2 thorough) "
        "with parameter intervals [0,1] and [1,3]; polylines with 2-3 segments x segments; a fixed list of Bezier x segment, "
        "Bezier x Bezier and rational arc x segment pairs. The exact-rational reference classifies each pair (disjoint with "
        "disjoint / overlapping boxes, transversal interior crossing(s), touching or overlapping). Oracle: the call returns, "
        "every pair is inside both intervals with |A(t)-B(u)| <= 1e-6, no duplicates, disjoint => (), every transversal "
        "crossing of segments/polylines is returned with exact parameters (1e-9); touching/overlap: soundness only; curves "
        "unchanged. state = one ordered pair of curves; transition = one curve_and_curve call; non-trivial = distinct pairs "
        "that are not 'disjoint with disjoint boxes'")
ASSUMPTIONS = ["completeness is demanded only for transversal crossings interior to both segments, as the statement says",
               "float data; parameters compared at 1e-9, points at 1e-6"]


def bounds(tier, seed):
    return {"grid": 4 if tier == "quick" else 5, "polylines": 40 if tier == "quick" else 400}


def segments(g):
    pts = [(x, y) for x in range(g) for y in range(g)]
    return [(p, q) for p in pts for q in pts if p != q]


def polylines(nmax):
    pts = [(x, y) for x in range(4) for y in range(4)]
    out = []
    # a deterministic family: every 3- and 4-vertex polyline whose vertices are drawn from a fixed stride of the grid
    for n in (3, 4):
        k = 0
        for combo in itertools.permutations(pts[::3], n):
            if all(combo[i] != combo[i + 1] for i in range(n - 1)):
                if k % 11 == 0:
                    out.append(combo)
                k += 1
    return out[:nmax]


def selfcrossing():
    """3-segment polylines on {0,1,2}^2 whose first and last segment cross transversally, each with probe segments through
    the double point: two true pairs then share one parameter of the probe"""
    pts = [(x, y) for x in range(3) for y in range(3)]
    out = []
    for combo in itertools.product(pts, repeat=4):
        if any(combo[i] == combo[i + 1] for i in range(3)):
            continue
        k, st = geom.classify_segments((combo[0], combo[1]), (combo[2], combo[3]))
        if k != "cross":
            continue
        X = (combo[0][0] + (combo[1][0] - combo[0][0]) * st[0], combo[0][1] + (combo[1][1] - combo[0][1]) * st[0])
        for d in ((1, 0), (0, 1), (1, 2), (2, -1)):
            B = ((X[0] - d[0] * F(1, 4), X[1] - d[1] * F(1, 4)), (X[0] + d[0] * F(1, 4), X[1] + d[1] * F(1, 4)))
            out.append((combo, B))
    return out[::7]


def cases(tier, seed):
    b = bounds(tier, seed)
    sc = selfcrossing()
    for i in range(0, len(sc), 8):
        yield ("selfcross", 0, i, 0)
    segs = segments(b["grid"])
    for i in range(len(segs)):
        yield ("seg", b["grid"], i, 0)
    pls = polylines(b["polylines"])
    for i in range(len(pls)):
        yield ("poly", b["polylines"], i, 0)
    for i in range(0, len([p for p in pls if len(p) == 3]), 4):
        yield ("polydup", b["polylines"], i, 0)
    for i in range(len(FIXED)):
        yield ("fixed", 0, i, 0)


def describe(case):
    if case[0] == "seg":
        return {"segment_A": segments(case[1])[case[2]], "against": "every segment of the grid, both parameter intervals"}
    if case[0] == "selfcross":
        return {"self_crossing_polylines_from_index": case[2]}
    if case[0] == "polydup":
        return {"three_vertex_polylines_with_doubled_middle_vertex_from_index": case[2]}
    if case[0] == "poly":
        return {"polyline_A": polylines(case[1])[case[2]], "against": "a fixed family of segments"}
    return {"fixed_pair": FIXED[case[2]][0]}


def seg_curve(seg, interval, ints=False):
    a, b = interval
    if ints:  # integer knots and integer points
        return lib.Curve([int(a), int(a), int(b), int(b)], lib.np.array(seg, dtype="int64"))
    return lib.Curve([float(a), float(a), float(b), float(b)], lib.np.array(seg, dtype="float64"))


def poly_curve(pts, knots):
    U = [float(knots[0])] + [float(k) for k in knots] + [float(knots[-1])]
    return lib.Curve(U, lib.np.array(pts, dtype="float64"))


def dist(p, q):
    return math.sqrt(sum((float(a) - float(b)) ** 2 for a, b in zip(p, q)))


def check_pairs(res, ca, cb, kind, crossings, where, tags, complete):
    """common oracle on the result of curve_and_curve"""
    res.transition()
    sa, sb = lib.snap_curve(ca), lib.snap_curve(cb)
    with EvalHorizon(200000):
        try:
            o = lib.outcome(lib.Intersection.curve_and_curve, ca, cb)
        except lib.HorizonExceeded:
            res.violation("nontermination", f"{where}: more than 200000 curve evaluations", **tags)
            return
    res.outcome(f"{kind}:{'ok' if o[0] == 'ok' else o[1]}")
    if lib.snap_curve(ca) != sa or lib.snap_curve(cb) != sb:
        res.violation("operand_modified", f"{where}: a curve was modified", **tags)
    if o[0] != "ok":
        res.violation("exception", f"{where} [{kind}]: raised {o[1]}: {o[2]}", exc=o[1], **tags)
        return
    try:
        pairs = [(float(t), float(u)) for t, u in o[1]]
    except Exception:  # noqa: BLE001
        res.violation("shape", f"{where}: returned {o[1]!r}", **tags)
        return
    (ta, tb), (ua, ub) = ca.knotvector.limits, cb.knotvector.limits
    for t, u in pairs:
        if not (ta <= t <= tb and ua <= u <= ub):
            res.violation("outside_interval", f"{where}: pair ({t}, {u}) outside the parameter intervals", **tags)
            return
        d = dist(ca(t), cb(u))
        if d > 1e-6:
            res.violation("unsound", f"{where} [{kind}]: returned ({t}, {u}) but |A(t)-B(u)| = {d:.3e}", **tags)
            return
    for (p1, p2) in itertools.combinations(pairs, 2):
        if math.hypot(p1[0] - p2[0], p1[1] - p2[1]) < 1e-9:
            res.violation("duplicate", f"{where}: duplicate pairs {p1} {p2}", **tags)
            return
    if kind == "disjoint" and pairs:
        res.violation("unsound", f"{where}: curves do not meet but {pairs} returned", **tags)
    if complete and kind == "cross":
        for (t, u) in crossings:
            if not any(abs(pt - float(t)) <= 1e-9 and abs(pu - float(u)) <= 1e-9 for pt, pu in pairs):
                res.violation("missed_crossing", f"{where}: transversal crossing at ({float(t)}, {float(u)}) not returned; got {pairs}",
                              **tags)
                return
        if len(pairs) != len(crossings):
            res.violation("extra_pair", f"{where}: {len(crossings)} crossings but {pairs} returned", **tags)


def _bez(pts, w=None):
    p = len(pts) - 1
    return ([0.0] * (p + 1) + [1.0] * (p + 1), pts, w)


S2 = math.sqrt(2) / 2
def _elev(p0, p1):
    return ([0.0] * 3 + [1.0] * 3, [p0, ((p0[0] + p1[0]) / 2, (p0[1] + p1[1]) / 2), p1], None)


FIXED = [
    ("elevated segment x segment (crossing)", _elev((0, 0), (2, 2)), _bez([(0, 2), (2, 0)]), "meet"),
    ("elevated segment x far segment", _elev((0, 0), (2, 2)), _bez([(5, 5), (6, 7)]), "disjoint"),
    ("elevated segment x elevated segment", _elev((0, 0), (2, 2)), _elev((0, 2), (2, 0)), "meet"),
    ("int knots: segment x elevated segment", ([0, 0, 1, 1], [(0, 2), (2, 0)], None), ([0, 0, 0, 1, 1, 1], [(0, 0), (1, 1), (2, 2)], None), "meet"),
    ("int knots: segment x far elevated segment", ([0, 0, 1, 1], [(0, 2), (2, 0)], None), ([0, 0, 0, 1, 1, 1], [(5, 5), (6, 6), (7, 7)], None), "disjoint"),
    ("parabola x y=1/2 (two transversal crossings)", _bez([(0, 0), (1, 2), (2, 0)]), _bez([(-1, 0.5), (3, 0.5)]), "meet"),
    ("parabola x y=1 (tangent)", _bez([(0, 0), (1, 2), (2, 0)]), _bez([(-1, 1.0), (3, 1.0)]), "meet"),
    ("parabola x y=3/2 (disjoint, overlapping boxes)", _bez([(0, 0), (1, 2), (2, 0)]), _bez([(-1, 1.5), (3, 1.5)]), "disjoint"),
    ("parabola x y=-1 (disjoint boxes)", _bez([(0, 0), (1, 2), (2, 0)]), _bez([(-1, -1.0), (3, -1.0)]), "disjoint"),
    ("cubic x cubic", _bez([(0, 0), (1, 3), (2, -3), (3, 0)]), _bez([(0, 1), (1, -2), (2, 2), (3, -1)]), "meet"),
    ("cubic x far cubic", _bez([(0, 0), (1, 3), (2, -3), (3, 0)]), _bez([(0, 10), (1, 12), (2, 8), (3, 11)]), "disjoint"),
    ("quarter circle x diagonal", _bez([(1, 0), (1, 1), (0, 1)], [1, S2, 1]), _bez([(0, 0), (1, 1)]), "meet"),
    ("quarter circle x far segment", _bez([(1, 0), (1, 1), (0, 1)], [1, S2, 1]), _bez([(2, 2), (3, 3)]), "disjoint"),
    ("quarter circle x inner chord (disjoint, overlapping boxes)", _bez([(1, 0), (1, 1), (0, 1)], [1, S2, 1]),
     _bez([(0.5, 0), (0, 0.5)]), "disjoint"),
    ("parabola x parabola", _bez([(0, 0), (1, 2), (2, 0)]), _bez([(0, 1), (1, -1), (2, 1)]), "meet"),
    # straight segments stored as rational quadratics with an interior knot of multiplicity < degree (collinear, monotone
    # control points: the curve runs along the segment once), and a rational arc with such a knot
    ("rational quadratic straight segment with an interior knot x segment",
     ([0.0] * 3 + [0.5] + [1.0] * 3, [(0, 0), (0.5, 0.5), (1.5, 1.5), (2, 2)], [1, 2, 3, 1]), _bez([(0, 2), (2, 0)]), "meet"),
    ("rational quadratic straight segment with an interior knot x far segment",
     ([0.0] * 3 + [0.5] + [1.0] * 3, [(0, 0), (0.5, 0.5), (1.5, 1.5), (2, 2)], [1, 2, 3, 1]), _bez([(5, 5), (6, 7)]), "disjoint"),
    ("rational arc with an interior knot x diagonal",
     ([0.0] * 3 + [0.5] + [1.0] * 3, [(1, 0), (1, 0.5), (0.5, 1), (0, 1)], [1, 0.8, 0.8, 1]), _bez([(0, 0), (1, 1)]), "meet"),
    ("segment x segment (degree-2 representation)", _bez([(0, 0), (1, 1), (2, 2)]), _bez([(0, 2), (2, 0)]), "meet"),
]
PROBE_SEGS = [((0, 1), (3, 2)), ((1, 0), (2, 3)), ((0, 0), (3, 3)), ((0, 3), (3, 0)), ((1, 1), (1, 2)), ((-1, -1), (-2, -3)),
              ((0, 2), (3, 2)), ((2, 0), (2, 3)), ((0.5, 0.5), (2.5, 1.5))]


def run_case(case, res):
    kind = case[0]
    if kind == "seg":
        segs = segments(case[1])
        A = segs[case[2]]
        for B in segs:
            k, st = geom.classify_segments(A, B)
            res.state((A, B))
            small = max(max(pt) for pt in A + B) <= 2
            for (ia, ib) in (((0, 1), (0, 1)), ((0, 1), (1, 3))) if (small or case[1] > 4) else (((0, 1), (1, 3)),):
                ca, cb = seg_curve(A, ia), seg_curve(B, ib)
                crossings = []
                if k == "cross":
                    crossings = [(ia[0] + (ia[1] - ia[0]) * st[0], ib[0] + (ib[1] - ib[0]) * st[1])]
                boxes = geom.boxes_overlap(A, B)
                tags = dict(shape="segments", cls=k, boxes=boxes)
                if k != "disjoint" or boxes:
                    res.nontriv((A, B, ib))
                check_pairs(res, ca, cb, k, crossings, f"segment {A} on {ia} x segment {B} on {ib}", tags, True)
            if (B[0][0] + 2 * B[0][1] + 3 * B[1][0] + 5 * B[1][1]) % 7 == 0:
                # every seventh partner also with integer knots and integer points
                ia, ib = (0, 1), (1, 3)
                crossings = [(st[0], 1 + 2 * st[1])] if k == "cross" else []
                check_pairs(res, seg_curve(A, ia, True), seg_curve(B, ib, True), k, crossings,
                            f"segment {A} on {ia} x segment {B} on {ib} (int knots and points)", dict(shape="segments_int", cls=k, boxes=boxes), True)
        return res.observe(sorted(res.outcomes.items()))
    if kind == "selfcross":
        knots = [F(0), F(1), F(2), F(3)]
        for pts, B in selfcrossing()[case[2]:case[2] + 8]:
            k, crossings = geom.classify_polylines(knots, pts, [F(1), F(3)], B)
            ca = poly_curve(pts, knots)
            cb = seg_curve(tuple(tuple(float(c) for c in p) for p in B), (1, 3))
            res.state((pts, B))
            res.nontriv((pts, B))
            tags = dict(shape="selfcrossing_polyline", cls=k, boxes=True)
            where = f"self-crossing polyline {pts} x segment {tuple(tuple(str(c) for c in p) for p in B)} on [1,3]"
            check_pairs(res, ca, cb, k, crossings, where, tags, True)
            check_pairs(res, cb, ca, k, [(u, t) for t, u in crossings], where + " (swapped)", tags, True)
        return res.observe(sorted(res.outcomes.items()))
    if kind == "poly":
        pts = polylines(case[1])[case[2]]
        n = len(pts)
        knots = [F(0), F(1, 2), F(2), F(3)][:n]
        ca = poly_curve(pts, knots)
        for B in PROBE_SEGS:
            Bx = tuple(tuple(F(c).limit_denominator(10) for c in p) for p in B)
            k, crossings = geom.classify_polylines(knots, pts, [F(1), F(3)], Bx)
            cb = seg_curve(B, (1, 3))
            res.state((pts, B))
            tags = dict(shape="polyline", cls=k, boxes=True)
            if k != "disjoint":
                res.nontriv((pts, B))
            check_pairs(res, ca, cb, k, crossings, f"polyline {pts} knots {knots} x segment {B} on [1,3]", tags, True)
            check_pairs(res, cb, ca, k, [(u, t) for t, u in crossings], f"segment {B} on [1,3] x polyline {pts}", tags, True)
        return res.observe(sorted(res.outcomes.items()))
    if kind == "polydup":
        # a vertex listed twice: a zero-length piece in the middle of the polyline (degree 0 once cleaned)
        for pts3 in [p for p in polylines(case[1]) if len(p) == 3][case[2]:case[2] + 4]:
            pts = (pts3[0], pts3[1], pts3[1], pts3[2])
            knots = [F(0), F(1, 2), F(2), F(3)]
            ca = poly_curve(pts, knots)
            for B in PROBE_SEGS:
                Bx = tuple(tuple(F(c).limit_denominator(10) for c in p) for p in B)
                k, crossings = geom.classify_polylines(knots, pts, [F(1), F(3)], Bx)
                cb = seg_curve(B, (1, 3))
                res.state((pts, B))
                tags = dict(shape="polyline_doubled_vertex", cls=k, boxes=True)
                if k != "disjoint":
                    res.nontriv((pts, B))
                check_pairs(res, ca, cb, k, crossings, f"polyline {pts} knots {knots} x segment {B} on [1,3]", tags, True)
                check_pairs(res, cb, ca, k, [(u, t) for t, u in crossings], f"segment {B} on [1,3] x polyline {pts}", tags, True)
        return res.observe(sorted(res.outcomes.items()))
    name, (Ua, Pa, Wa), (Ub, Pb, Wb), expect = FIXED[case[2]]
    ca = lib.Curve(Ua, lib.np.array(Pa, dtype="float64"), Wa)
    cb = lib.Curve(Ub, lib.np.array(Pb, dtype="float64"), Wb)
    res.state(name)
    res.nontriv(name)
    for x, y, nm in ((ca, cb, name), (cb, ca, name + " (swapped)")):
        check_pairs(res, x, y, "disjoint" if expect == "disjoint" else "meet", [], nm, dict(shape="fixed", cls=expect, boxes=True), False)
    res.observe(sorted(res.outcomes.items()))
