"""C06 - degree elevation is exact; degree reduction is its inverse or is refused."""
import itertools
from fractions import Fraction as F

from ..engine import alphabets as al
from ..engine import lib
from ..ref import bspline as rb
from ..ref import knotmodel as km
from ..ref import space as sp
from .c05 import numeric_sqdev

ID = "C06"
RULE = ("enum with chained histories: every knot vector of the alphabets (degree <= 3, <= 2 interior knots, every multiplicity "
        "pattern incl. mixed, full multiplicity, knots at 0, degree 0) x t in {1,2} ({1,2,3}) x {degree_increase(t), "
        "curve.degree = p+t} on unit control vectors (linearity), generic scalar/2-D, weights {None, generic}, Fraction "
        "and float; then degree_decrease(t) / curve.degree = p from the elevated state (tolerances default, 0, None) must "
        "restore the original; direct reduction of curves that are not elevations (generic and {-1,0,2}^n control vectors; "
        "tolerances default, 0, None); invalid `times`. The reference decides representability at the lower degree by "
        "spline-space membership and supplies the constrained L2 projection for tolerance=None. state = (curve, t, "
        "tolerance) configuration; transition = one call compared; non-trivial = distinct configurations accepted with a "
        "changed curve, or refused because not representable")
ASSUMPTIONS = ["linearity in control points", "degrees/knot positions bounded by the alphabets",
               "when an interior knot has multiplicity < t the reduced knot vector does not exist: only atomicity is checked"]


def bounds(tier, seed):
    q = tier == "quick"
    return {"pmax": 3, "tmax": 2 if q else 3, "result_degree_max": 4 if q else 5, "kmax": 2,
            "pmax_seed_alphabet": 2 if q else 3, "small_alphabet_n": 3 if q else 4, "alphabets": al.tier_alphabets(tier, seed)}


def cases(tier, seed):
    b = bounds(tier, seed)
    for K in b["alphabets"]:
        pmax = b["pmax"] if K == "K0" else b["pmax_seed_alphabet"]
        for p, U in al.knotvectors(K, pmax, b["kmax"]):
            for t in range(1, b["tmax"] + 1):
                if p + t <= b["result_degree_max"]:
                    yield ("elevate", K, p, U, t)
            if p >= 1:
                yield ("reduce", K, p, U, b["small_alphabet_n"])
    # high result degrees (7, 8) on small knot vectors: Bezier and one simple / one double interior knot
    a, bb, cands = al.ALPHABETS["K0"]
    for p, t in ((4, 3), (5, 2), (6, 1), (6, 2)) if tier == "quick" else ((4, 3), (4, 4), (5, 2), (5, 3), (6, 1), (6, 2), (3, 4), (2, 5)):
        for inner in ([], [cands[1]], [cands[2], cands[2]]):
            yield ("high", "K0", p, tuple([a] * (p + 1) + inner + [bb] * (p + 1)), t)


def describe(case):
    return {"kind": case[0], "alphabet": case[1], "degree": case[2], "knotvector": list(case[3]), "t_or_n": case[4]}


def cost(case):
    return len(case[3]) * (case[4] + 1 if case[0] == "elevate" else 1)


def elevated_vector(U, t):
    return sorted(list(U) + rb.knots_of(U) * t)


def reduced_vector(U, p, t):
    r = km.set_degree(U, p, p - t)
    return r[1] if r[0] == "ok" else None


def check_elevate(res, U, p, P, W, rep, t, api):
    res.transition()
    exact = rep == "frac"
    c = lib.mk_curve(U, P, W, rep)
    if api == "method":
        o = lib.outcome(c.degree_increase, t)
    else:
        def setdeg():
            c.degree = p + t
        o = lib.outcome(setdeg)
    tags = dict(op="elevate", api=api, rational=W is not None, rep=rep, t=t, zero_knot=F(0) in U[p + 1:len(U) - p - 1])
    where = f"U={U} P={P} W={W} rep={rep} degree_increase({t}) via {api}"
    res.state((lib.tagdeep(U), lib.tagdeep(P), lib.tagdeep(W), rep, t, api))
    res.outcome("elevate:" + ("ok" if o[0] == "ok" else o[1]))
    if o[0] != "ok":
        res.violation("exception", f"{where}: raised {o[1]}: {o[2]}", exc=o[1], **tags)
        return None
    V = elevated_vector(U, t)
    got = lib.exact_kv(c.knotvector)
    if (got != V) if exact else (len(got) != len(V) or any(not lib.close(g, v, 1e-12) for g, v in zip(got, V))):
        res.violation("knots", f"{where}: knot vector {got}, expected every multiplicity +{t}: {V}", **tags)
        return None
    if c.degree != p + t or c.ctrlpoints is None or len(c.ctrlpoints) != len(V) - p - t - 1:
        res.violation("shape", f"{where}: degree {c.degree}, {c.ctrlpoints}", **tags)
        return None
    D0 = rb.denote(U, P, W, p)
    if exact:
        if not lib.curve_pw(c).same(D0):
            res.violation("curve_changed", f"{where}: curve differs: ctrlpoints {c.ctrlpoints} weights {c.weights}", **tags)
            return None
        if not lib.all_exact(c.ctrlpoints) or not lib.all_exact(c.weights):
            res.violation("type", f"{where}: inexact numbers introduced {c.ctrlpoints}", **tags)
    else:
        for u in al.params(U, p + t):
            ov = lib.outcome(c, float(u))
            if ov[0] != "ok" or not lib.close_point(lib.to_point(ov[1]), D0.value(u)):
                res.violation("curve_changed", f"{where}: value at {u}: {ov[1:]} vs {D0.value(u)}", **tags)
                return None
    res.nontriv((lib.tagdeep(U), lib.tagdeep(P), lib.tagdeep(W), t))
    return c


def check_reduce(res, U, p, P, W, rep, t, tolname, api, how, expect_restore=None):
    """degree_decrease(t) on the curve (U,P,W) of degree p, lockstep with the reference"""
    res.transition()
    exact = rep == "frac"
    V = reduced_vector(U, p, t)
    D0 = rb.denote(U, P, W, p)
    q = p - t
    if V is None:
        representable = None
    elif W is None:
        representable = sp.in_space(D0, V, q)
    else:
        H = rb.denote(U, [tuple(F(w) * x for x in (pt if isinstance(pt, tuple) else (pt,))) + (F(w),) for pt, w in zip(P, W)], None, p)
        representable = sp.in_space(H, V, q)
    c = lib.mk_curve(U, P, W, rep)
    before = lib.snap_curve(c)
    tol = {"default": F(1, 10 ** 9), "zero": F(0), "none": None}[tolname]
    if api == "setter":
        def setdeg():
            c.degree = q
        o = lib.outcome(setdeg)
    elif tolname == "default":
        o = lib.outcome(c.degree_decrease, t)
    else:
        o = lib.outcome(c.degree_decrease, t, None if tol is None else (0 if exact else 0.0))
    tags = dict(op="reduce", api=api, how=how, rational=W is not None, rep=rep, tol=tolname, representable=representable, t=t)
    where = f"[{how}] U={U} P={P} W={W} rep={rep} degree_decrease({t}, tolerance={tolname}) via {api}"
    res.state((lib.tagdeep(U), lib.tagdeep(P), lib.tagdeep(W), rep, -t, tolname, api))
    res.outcome(f"reduce:{representable}:{tolname}:{'ok' if o[0] == 'ok' else o[1]}")
    if o[0] != "ok":
        if o[1] != "ValueError":
            res.violation("wrong_exception", f"{where}: raised {o[1]} ({o[2]})", exc=o[1], **tags)
        if lib.snap_curve(c) != before:
            res.violation("not_atomic", f"{where}: raised {o[1]} and the curve changed", **tags)
        if representable and (exact or tolname != "zero"):
            res.violation("refused_exact", f"{where}: representable at degree {q} but raised {o[1]}: {o[2]}", **tags)
        elif representable is False and tolname == "none":
            extra = {}
            if W is not None:
                nodesz = rb.knots_of(V) if q >= 1 else None
                M, _ = sp.l2_projection_matrix(U, V, nodesz, p, q)
                extra["projected_weight_nonpositive"] = any(x <= 0 for x in sp.matvec(M, [F(w) for w in W]))
            res.violation("forced_refused", f"{where}: tolerance=None must return the best approximation, raised {o[1]}: {o[2]}",
                          **tags, **extra)
        if representable is False:
            res.nontriv((lib.tagdeep(U), lib.tagdeep(P), lib.tagdeep(W), -t, tolname))
        return None
    if V is None:
        res.violation("accepted_impossible", f"{where}: accepted although an interior knot has multiplicity < {t}; "
                      f"knots now {list(c.knotvector)}", **tags)
        return None
    got = lib.exact_kv(c.knotvector)
    if (got != V) if exact else (len(got) != len(V) or any(not lib.close(g, v, 1e-12) for g, v in zip(got, V))):
        res.violation("knots", f"{where}: knot vector {got}, expected {V}", **tags)
        return None
    if c.degree != q or c.ctrlpoints is None or len(c.ctrlpoints) != len(V) - q - 1:
        res.violation("shape", f"{where}: degree {c.degree} ctrlpoints {c.ctrlpoints}", **tags)
        return None
    res.nontriv((lib.tagdeep(U), lib.tagdeep(P), lib.tagdeep(W), -t, tolname))
    if not exact:
        if representable:
            for u in al.params(V, q):
                ov = lib.outcome(c, float(u))
                if ov[0] != "ok" or not lib.close_point(lib.to_point(ov[1]), D0.value(u)):
                    res.violation("lossy", f"{where}: value at {u}: {ov[1:]} vs {D0.value(u)}", **tags)
                    return None
        elif representable is False and tol is not None and W is None and c.weights is None:
            # float data accepted at the default tolerance: the exact integral of the squared deviation of the numbers
            # returned may exceed the (absolute) tolerance by round-off only - two orders of magnitude are allowed
            Dn = rb.denote(V, [lib.to_point(x) for x in c.ctrlpoints], None, q)
            dev = max(D0.sq_dev(Dn))
            bound = 200 * tol * max(F(1), U[-1] - U[0])
            if dev > bound:
                res.violation("lossy", f"{where}: accepted with integral of squared deviation {float(dev):.3e} > {float(bound):.3e}", **tags)
                return None
        return c
    D1 = lib.curve_pw(c)
    if representable:
        if not D1.same(D0):
            res.violation("lossy", f"{where}: representable, but the curve changed: {c.ctrlpoints} {c.weights}", **tags)
            return None
        if expect_restore is not None and W is None and lib.exact_curve(c) != expect_restore:
            res.violation("not_restored", f"{where}: got {lib.exact_curve(c)}, expected the pre-elevation curve {expect_restore}", **tags)
    elif tol is not None:
        bound = 2 * tol * max(F(1), U[-1] - U[0])
        if W is None and c.weights is None:
            dev = max(D0.sq_dev(D1))
            if dev > bound:
                res.violation("lossy", f"{where}: accepted with integral of squared deviation {float(dev):.3e} > {float(bound):.3e}", **tags)
                return None
        else:
            dev = max(numeric_sqdev(D0, D1))
            if dev > 100 * float(bound) + 1e-12:
                res.violation("lossy", f"{where}: accepted with integral of squared deviation ~{dev:.3e}", **tags)
                return None
    else:
        # forced: constrained best approximation
        nodesz = rb.knots_of(V) if q >= 1 else None
        if q >= 1:
            for k in nodesz:
                if D1.value(k) != D0.value(k):
                    res.violation("no_interpolation", f"{where}: forced reduction changes the value at knot {k}: {D1.value(k)} != "
                                  f"{D0.value(k)}", **tags)
                    return None
        if W is None and c.weights is None:
            M, _ = sp.l2_projection_matrix(U, V, nodesz, p, q)
            pts = [x if isinstance(x, tuple) else (x,) for x in P]
            exp = sp.apply_matrix(M, pts)
            gotp = [lib.to_point(x) for x in c.ctrlpoints]
            gotp = [x if isinstance(x, tuple) else (x,) for x in gotp]
            if gotp != exp:
                res.violation("not_best_approximation", f"{where}: result {c.ctrlpoints} is not the constrained L2 projection {exp}", **tags)
    if not lib.all_exact(c.ctrlpoints) or not lib.all_exact(c.weights):
        res.violation("type", f"{where}: inexact numbers introduced {c.ctrlpoints}", **tags)
    return c


def run_case(case, res):
    kind, K, p, U, t = case
    U = list(U)
    n = len(U) - p - 1
    if kind == "high":
        gen = al.generic_points(n)
        c = check_elevate(res, U, p, gen, None, "frac", t, "method")
        if c is not None:
            U1, P1, W1 = lib.exact_curve(c)
            check_reduce(res, U1, p + t, P1, W1, "frac", t, "default", "method", "elevate-reduce", (U, list(gen), None))
        # the same elevation as a history of single steps on one object
        res.transition()
        c2 = lib.mk_curve(U, gen)
        o = lib.outcome(lambda: [c2.degree_increase(1) for _ in range(t)])
        if o[0] != "ok" or not lib.curve_pw(c2).same(rb.denote(U, gen, None, p)) or c2.degree != p + t:
            res.violation("curve_changed", f"U={U}: {t} successive degree_increase(1) from degree {p} changed the curve ({o[:2]})",
                          op="elevate", api="stepwise", rational=False, rep="frac", t=t, zero_knot=False)
        return res.observe(sorted(res.outcomes.items()))
    gen, gen2, gw = al.generic_points(n), al.generic_points(n, 2), al.generic_weights(n)
    if kind == "elevate":
        for e in al.unit_vectors(n):
            check_elevate(res, U, p, e, None, "frac", t, "method")
        for P, W, rep, api in ((gen, None, "frac", "method"), (gen, None, "frac", "setter"), (gen2, None, "frac", "method"),
                               (gen, gw, "frac", "method"), (gen, None, "float", "method"), (gen2, gw, "float", "setter")):
            c = check_elevate(res, U, p, P, W, rep, t, api)
            if c is None or api == "setter" and rep == "frac":
                continue
            # chained: reduce from the elevated (non-initial) state
            if rep == "frac":
                U1, P1, W1 = lib.exact_curve(c)
                # ... once on the very object that was elevated (anything it carries from the elevation is still there)
                res.transition()
                ol = lib.outcome(c.degree_decrease, t)
                back = lib.exact_curve(c) if ol[0] == "ok" else None
                if ol[0] != "ok" or back[0] != U or not lib.curve_pw(c).same(rb.denote(U, P, W, p)) or (W is None and back[1] != list(P)):
                    res.violation("not_restored", f"U={U} P={P} W={W}: degree_increase({t}) then degree_decrease({t}) on the same object "
                                  f"gave {ol[:2] if ol[0] != 'ok' else back}", op="reduce", api="live", rational=W is not None, tol="default")
                orig = (U, list(P), None) if W is None else None
                tols = ("default", "zero", "none") if W is None and P is gen else ("default",)
                for tolname in tols:
                    r = check_reduce(res, U1, p + t, P1, W1, "frac", t, tolname, "method", "elevate-reduce", orig)
                    if r is not None and W is not None:
                        if lib.exact_kv(r.knotvector) != U or not lib.curve_pw(r).same(rb.denote(U, P, W, p)):
                            res.violation("not_restored", f"rational elevate({t})/reduce: knots {list(r.knotvector)}", op="reduce",
                                          rational=True, tol=tolname)
                if P is gen and W is None:
                    check_reduce(res, U1, p + t, P1, W1, "frac", t, "default", "setter", "elevate-reduce", orig)
            else:
                U1 = elevated_vector(U, t)
                T = sp.basis_change(U, U1, p, p + t)
                pts = [x if isinstance(x, tuple) else (x,) for x in P]
                if W is None:
                    Q = sp.apply_matrix(T, pts)
                    P1 = [x[0] if not isinstance(P[0], tuple) else x for x in Q]
                    check_reduce(res, U1, p + t, P1, None, "float", t, "default", "method", "elevate-reduce")
            res.trace()
        # invalid times
        for bad in (0, -1, 1.5, "a"):
            res.transition()
            c = lib.mk_curve(U, gen)
            before = lib.snap_curve(c)
            o1 = lib.outcome(c.degree_increase, bad)
            o2 = lib.outcome(c.degree_decrease, bad)
            for nm, o in (("degree_increase", o1), ("degree_decrease", o2)):
                if o[0] == "ok":
                    res.violation("invalid_times", f"U={U} {nm}({bad!r}) accepted", op=nm)
            if lib.snap_curve(c) != before:
                res.violation("not_atomic", f"U={U} invalid times {bad!r} changed the curve", op="invalid_times")
        return res.observe(sorted(res.outcomes.items()))
    # direct reduction of curves that are not elevations
    nsmall = t
    vectors = [(gen, None)]
    if n <= nsmall:
        vectors += [([F(x) for x in v], None) for v in itertools.product((-1, 0, 2), repeat=n)]
    for tt in (1, 2):
        if p - tt < 0:
            continue
        for P, W in vectors:
            tols = ("default", "zero", "none") if P is gen else ("default", "none")
            for tolname in tols:
                check_reduce(res, U, p, P, W, "frac", tt, tolname, "method", "direct")
        if tt == 1:
            check_reduce(res, U, p, gen2, None, "frac", tt, "none", "method", "direct")
            check_reduce(res, U, p, gen, gw, "frac", tt, "default", "method", "direct")
            # a rational curve whose weighted numerator is constant (P_i = 1/w_i): only the weight function resists
            check_reduce(res, U, p, [1 / w for w in gw], gw, "frac", tt, "default", "method", "direct")
            check_reduce(res, U, p, gen, gw, "frac", tt, "none", "method", "direct")
            check_reduce(res, U, p, gen, None, "float", tt, "default", "method", "direct")
            check_reduce(res, U, p, gen, None, "float", tt, "none", "method", "direct")
            # float data far from the origin and almost representable: an elevated curve moved by 1000 with one control
            # point off by 1/32 (not representable: refusal, or a result within the absolute tolerance)
            V1 = reduced_vector(U, p, 1)
            if V1 is not None:
                T = sp.basis_change(V1, U, p - 1, p)
                base = [x[0] for x in sp.apply_matrix(T, [(x,) for x in al.generic_points(len(V1) - p)])]
                for j in sorted({0, n // 2, n - 1}):
                    near = [1000 + x + (F(1, 32) if i == j else 0) for i, x in enumerate(base)]
                    check_reduce(res, U, p, near, None, "float", 1, "default", "method", "near-representable")
                    check_reduce(res, U, p, near, None, "float", 1, "default", "setter", "near-representable")
            check_reduce(res, U, p, gen, None, "frac", tt, "default", "setter", "direct")
    res.observe(sorted(res.outcomes.items()))
