"""C17 - KnotVector union / intersection give the common refinement / common coarsening."""
import copy
from fractions import Fraction as F

from ..engine import alphabets as al
from ..engine import lib
from ..ref import bspline as rb
from ..ref import knotmodel as km
from ..ref import space as sp

ID = "C17"
RULE = ("enum: every ordered pair (U, V) of clamped knot vectors of an alphabet (degrees (p,q) in {0..3}^2 / {0..4}^2, <= 2 "
        "distinct interior knots each, every multiplicity pattern): U|V, V|U, U|U, U|=V, U&V, U&=V on real objects are "
        "compared with the reference (degree max, lower continuity order per knot; per-knot minimum for equal degrees); "
        "on the sub-space p,q<=2,k<=1 (quick) the semantic definition is checked independently: every B-spline over U and "
        "over V lies in the space over U|V (piecewise-polynomial continuity test) and removing any one interior knot "
        "copy breaks that. Different intervals must raise ValueError. state = one ordered pair; transition = one operator "
        "application compared; non-trivial = distinct pairs with U != V that share the interval")
ASSUMPTIONS = ["degrees/knot positions bounded by the listed alphabets", "U & V for different degrees is not specified "
               "by the property: only well-formedness of a returned vector and operand immutability are checked there"]


def bounds(tier, seed):
    return {"pmax": 3 if tier == "quick" else 4, "kmax": 2, "alphabets": al.tier_alphabets(tier, seed),
            "semantic": {"pmax": 2, "kmax": 1} if tier == "quick" else {"pmax": 3, "kmax": 2}}


def cases(tier, seed):
    b = bounds(tier, seed)
    for K in b["alphabets"]:
        for p, U in al.knotvectors(K, b["pmax"], b["kmax"]):
            yield (K, p, U, b["pmax"], b["kmax"], b["semantic"]["pmax"], b["semantic"]["kmax"], tier)


def describe(case):
    return {"alphabet": case[0], "degree": case[1], "U": list(case[2]), "partner_space": f"all vectors p<={case[3]} k<={case[4]}"}


def semantic_ok(res, U, p, V, q, W, d, where, tags):
    """independent of the multiplicity formula: membership of every basis function, and coarsest"""
    if not rb.wellformed(W, d):
        return
    for (X, r) in ((U, p), (V, q)):
        n = len(X) - r - 1
        for j in range(n):
            e = [F(int(i == j)) for i in range(n)]
            f = rb.denote(X, e, None, r)
            if not sp.in_space(f, W, d):
                res.violation("semantic", f"{where}: basis function {j} over {X} is not representable on {W}", sem="refines", **tags)
                return
    for k in rb.knots_of(W)[1:-1]:
        W2 = list(W)
        W2.remove(k)
        still = True
        for (X, r) in ((U, p), (V, q)):
            n = len(X) - r - 1
            for j in range(n):
                e = [F(int(i == j)) for i in range(n)]
                if not sp.in_space(rb.denote(X, e, None, r), W2, d):
                    still = False
                    break
            if not still:
                break
        if still:
            res.violation("semantic", f"{where}: {W} is not the coarsest: a copy of knot {k} can be removed", sem="coarsest", **tags)
            return
    res.outcome("semantic_checked")


def run_case(case, res):
    K, p, U, pmax, kmax, spmax, skmax, tier = case
    U = list(U)
    partners = [(q, list(V)) for q, V in al.knotvectors(K, pmax, kmax)]
    kU = len(set(U)) - 2
    for q, V in partners:
        res.state((U, V))
        if U != V:
            res.nontriv((U, V))
        tags = dict(degrees="equal" if p == q else "different")
        where = f"U={U} V={V}"
        a, b = lib.mk_kv(U), lib.mk_kv(V)
        sa, sb = lib.snap_kv(a), lib.snap_kv(b)
        exp = km.union(U, p, V, q)
        res.transition(6)
        o = lib.outcome(lambda: a | b)
        if o[0] != "ok":
            res.violation("exception", f"{where}: U|V raised {o[1]}: {o[2]}", op="or", exc=o[1], **tags)
            continue
        W = lib.exact_kv(o[1])
        if W != exp[1] or o[1].degree != exp[2]:
            res.violation("union", f"{where}: U|V = {W} degree {o[1].degree}, expected {exp[1]} degree {exp[2]}", op="or", **tags)
        o2 = lib.outcome(lambda: b | a)
        if o2[0] != "ok" or lib.exact_kv(o2[1]) != W:
            res.violation("commutative", f"{where}: V|U = {o2[1:]} != U|V = {W}", op="or", **tags)
        o3 = lib.outcome(lambda: a | a)
        if o3[0] != "ok" or lib.exact_kv(o3[1]) != U:
            res.violation("idempotent", f"{where}: U|U = {o3[1:]}", op="or", **tags)
        c = copy.deepcopy(a)
        o4 = lib.outcome(c.__ior__, b)
        if o4[0] != "ok" or lib.exact_kv(c) != W:
            res.violation("inplace", f"{where}: U|=V gives {list(c)} ({o4[:2]}), U|V gives {W}", op="ior", **tags)
        # intersection
        expi = km.intersection(U, p, V, q)
        oi = lib.outcome(lambda: a & b)
        oj = lib.outcome(lambda: b & a)
        c = copy.deepcopy(a)
        ok_ = lib.outcome(c.__iand__, b)
        if expi[0] == "ok":
            if oi[0] != "ok" or lib.exact_kv(oi[1]) != expi[1]:
                res.violation("intersection", f"{where}: U&V = {oi[1:]} expected {expi[1]}", op="and", **tags)
            elif oj[0] != "ok" or lib.exact_kv(oj[1]) != expi[1]:
                res.violation("commutative", f"{where}: V&U = {oj[1:]} != U&V", op="and", **tags)
            elif ok_[0] != "ok" or lib.exact_kv(c) != expi[1]:
                res.violation("inplace", f"{where}: U&=V gives {list(c)}", op="iand", **tags)
        else:
            for r in (oi, oj):
                if r[0] == "ok" and not rb.wellformed(lib.exact_kv(r[1]), r[1].degree):
                    res.violation("intersection", f"{where}: U&V returned a malformed vector {list(r[1])}", op="and", **tags)
        if lib.snap_kv(a) != sa or lib.snap_kv(b) != sb:
            res.violation("operand_modified", f"{where}: an operand changed", **tags)
        res.outcome("pair_" + tags["degrees"])
        if p <= spmax and q <= spmax and kU <= skmax and len(set(V)) - 2 <= skmax and o[0] == "ok":
            semantic_ok(res, U, p, V, q, W, o[1].degree, where, tags)
    # different intervals
    for V in ([U[0]] * (p + 1) + [U[-1] + 1] * (p + 1), [U[0] - 1] * (p + 1) + [k for k in U if U[0] < k < U[-1]] + [U[-1]] * (p + 1)):
        a, b = lib.mk_kv(U), lib.mk_kv(V)
        for name, fn in (("or", lambda: a | b), ("and", lambda: a & b), ("ior", lambda: a.__ior__(b)), ("iand", lambda: a.__iand__(b))):
            res.transition()
            o = lib.outcome(fn)
            if o[0] == "ok" or o[1] != "ValueError":
                res.violation("different_intervals", f"U={U} V={V}: {name} gave {o[:2]} instead of ValueError", op=name)
            if lib.exact_kv(a) != U:
                res.violation("not_atomic", f"U={U} V={V}: {name} changed U to {list(a)}", op=name)
        res.outcome("different_interval")
    res.observe(sorted(res.outcomes.items()))
