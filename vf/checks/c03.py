"""C03 - every reachable KnotVector is well-formed; queries agree; rejected requests are atomic.

Explicit-state BFS over histories of public KnotVector operations (real objects rebuilt from exact snapshots),
in lockstep with vf.ref.knotmodel, plus a one-step enumeration of the constructor on well- and mal-formed literals.
"""
import copy
from fractions import Fraction as F

from ..engine import alphabets as al
from ..engine import lib
from ..engine.bfs import bfs
from ..ref import bspline as rb
from ..ref import knotmodel as km

ID = "C03"
RULE = ("bfs: states are exact typed snapshots (knots, degree) of KnotVector objects; from 14 initial vectors every menu "
        "entry (insert/remove/+=/-=/shift/scale/normalize/convert/degree/|=/&=/non-mutating operators/split/copy with "
        "valid and invalid arguments) is applied to a fresh real object and to the reference model up to the stated "
        "depth; the invariant and all queries are evaluated in every state. Plus a one-step enumeration of the "
        "constructor on systematically malformed literals. non-trivial = distinct (state, operation) transitions that "
        "were accepted and changed the state, or were rejected for a reason other than a non-numeric argument")
ASSUMPTIONS = ["history depth bounded as stated", "argument menus are finite (one representative per argument class)",
               "number types are not part of this property's oracle (values compared exactly, or at 1e-12 for floats)"]
DETERMINISM_CASES = 30


def bounds(tier, seed):
    return {"depth": 3 if tier == "quick" else 4, "roots": len(ROOTS), "state_budget_per_root": 4000 if tier == "quick" else 20000}


Fr = F
ROOTS = [
    ("bezier0-int", [0, 1]),
    ("bezier1-int", [0, 0, 1, 1]),
    ("bezier2", [Fr(-1)] * 3 + [Fr(2)] * 3),
    ("bezier3", [Fr(-1)] * 4 + [Fr(2)] * 4),
    ("p1-single-zero", [Fr(-1), Fr(-1), Fr(0), Fr(2), Fr(2)]),
    ("p2-double", [Fr(-1)] * 3 + [Fr(1, 3)] * 2 + [Fr(2)] * 3),
    ("p1-full", [Fr(-1), Fr(-1), Fr(0), Fr(0), Fr(2), Fr(2)]),
    ("p2-two", [Fr(-1)] * 3 + [Fr(-1, 2), Fr(1), Fr(1)] + [Fr(2)] * 3),
    ("negative", [Fr(-3), Fr(-3), Fr(-5, 2), Fr(-1), Fr(-1, 2), Fr(-1, 2)]),
    ("float1", [0.0, 0.0, 0.5, 1.0, 1.0]),
    ("float2", [0.0, 0.0, 0.0, 0.25, 0.75, 0.75, 1.0, 1.0, 1.0]),
    ("int-p1", [0, 0, 1, 2, 3, 3]),
    ("p0-interior", [Fr(-1), Fr(0), Fr(1), Fr(2)]),
    ("p3", [Fr(1, 3)] * 4 + [Fr(1), Fr(7, 3), Fr(7, 3)] + [Fr(11, 2)] * 4),
]


def ctor_literals():
    """(label, args) for the constructor: every well-formed vector of a small alphabet and systematic malformations"""
    out = []
    good = [list(U) for _, U in al.knotvectors("K0", 2, 2)] + [[0, 1], [0, 0, 1, 1], [0.0, 0.0, 0.5, 1.0, 1.0],
                                                              [0, 0, 0, 1, 2, 2, 3, 3, 3]]
    for U in good:
        out.append(("wellformed", (U,)))
    base = [[Fr(-1), Fr(-1), Fr(0), Fr(2), Fr(2)], [Fr(-1)] * 3 + [Fr(1, 3)] * 2 + [Fr(2)] * 3, [0, 0, 1, 1],
            [0, 0, 0, 1, 2, 2, 3, 3, 3], [0, 1], [0.0, 0.0, 0.5, 1.0, 1.0], [Fr(-1), Fr(0), Fr(1), Fr(2)],
            [Fr(-1), Fr(-1), Fr(0), Fr(0), Fr(2), Fr(2)], [0, 0, 0, 1, 1, 1, 2, 2, 2]]
    for U in base:
        p = rb.degree_of(U)
        out.append(("drop_first", (U[1:],)))
        out.append(("drop_last", (U[:-1],)))
        out.append(("dup_first", ([U[0]] + U,)))
        out.append(("dup_last", (U + [U[-1]],)))
        out.append(("tail_outside", (U + [U[-1] + 1],)))
        out.append(("head_outside", ([U[0] - 1] + U,)))
        out.append(("tail_outside_block", (U + [U[-1] + 1] * (p + 1),)))
        # the same malformations with an explicit degree (the inferred degree hides some of them)
        for lab2, V in (("drop_first", U[1:]), ("drop_last", U[:-1]), ("dup_first", [U[0]] + U), ("dup_last", U + [U[-1]]),
                        ("tail_outside", U + [U[-1] + 1]), ("head_outside", [U[0] - 1] + U)):
            for d in (p - 1, p, p + 1):
                if d >= 0:
                    out.append((lab2 + "_explicit_degree", (V, d)))
        if len(U) > 2:
            V = list(U)
            V[0], V[-1] = V[-1], V[0]
            out.append(("unsorted", (V,)))
            V = list(U)
            V[1], V[-2] = V[-2], V[1]
            if V != U:
                out.append(("unsorted", (V,)))
        # every transposition of two different values (descents in the head block, the interior and the tail block)
        for i in range(len(U)):
            for j in range(i + 1, len(U)):
                if U[i] != U[j]:
                    V = list(U)
                    V[i], V[j] = V[j], V[i]
                    out.append(("unsorted_swap", (V,)))
                    if i == 0 or j == len(U) - 1:
                        out.append(("unsorted_swap_explicit_degree", (V, p)))
        if len(set(U)) > 2:
            k = sorted(set(U))[1]
            V = sorted(U + [k] * (p + 2 - rb.mult(U, k)))
            out.append(("excess_interior", (V,)))
        out.append(("constant", ([U[0]] * len(U),)))
        for d in range(0, len(U)):
            out.append(("explicit_degree", (U, d)))
        out.append(("with_none", (U[:1] + [None] + U[1:],)))
        out.append(("with_str", (U[:1] + ["asd"] + U[1:],)))
        out.append(("with_nan", (U[:1] + [float("nan")] + U[1:],)))
        out.append(("nested", ([U, U],)))
    for lit in ([], [0], [1, 1], None, "asd", 3, [[0, 1]], ["a", "b"], (0, 0, 1), [0, 0, 1], [0, 1, 1], [0, 0, 1, 1, 2],
                [0, 0, 0, 1, 1, 1, 2, 2], [0, 0, 1, 2, 2, 2], [0, 1, 1, 2], [0, 0, 1, 1, 1, 2, 2]):
        out.append(("literal", (lit,)))
    out.append(("explicit_degree", ([0, 1, 2, 3], 1)))
    out.append(("explicit_degree", ([0, 1, 2, 3], 0)))
    out.append(("explicit_degree", ([0, 0, 1, 1], -1)))
    return out


def cases(tier, seed):
    b = bounds(tier, seed)
    for i, (name, vals) in enumerate(ROOTS):
        # one case per (root, first menu entry): the root BFS is split over its first-level transitions
        nmenu = len(menu((tuple(vals), rb.degree_of(vals))))
        for e in range(nmenu):
            yield ("bfs", i, b["depth"], b["state_budget_per_root"], e)
    # histories on ONE live object (a state rebuilt from its snapshot has no hidden per-object state)
    for i, (name, vals) in enumerate(ROOTS):
        nmenu = len(menu((tuple(vals), rb.degree_of(vals))))
        for e in range(nmenu):
            yield ("live", i, 2 if tier == "quick" else 3, 0, e)
    lits = ctor_literals()
    for i in range(0, len(lits), 40):
        yield ("ctor", i, 40, 0, 0)


def describe(case):
    if case[0] == "live":
        vals = ROOTS[case[1]][1]
        return {"live_history_root": ROOTS[case[1]][0], "first_operation": menu((tuple(vals), rb.degree_of(vals)))[case[4]],
                "length": case[2]}
    if case[0] == "bfs":
        vals = ROOTS[case[1]][1]
        e = menu((tuple(vals), rb.degree_of(vals)))[case[4]]
        return {"bfs_root": ROOTS[case[1]][0], "vector": vals, "first_operation": e, "depth": case[2]}
    return {"constructor_literals": [x[0] for x in ctor_literals()[case[1]:case[1] + 3]], "from": case[1]}


# ---------------------------------------------------------------- state helpers
def state_of(kv):
    return (tuple(kv), kv.degree)


def key(state):
    return (lib.tagdeep(state[0]), state[1])


def build(state):
    return lib.KnotVector(list(state[0]))


def exact(values):
    return [lib.to_frac(v) for v in values]


def has_float(values):
    return any(isinstance(v, (float, lib.np.floating)) for v in values)


def same_values(got, exp, tol):
    if len(got) != len(exp):
        return False
    if not tol:
        return list(got) == list(exp)
    for g, e in zip(got, exp):
        if abs(g - e) > F(1, 10 ** 12) * max(1, abs(e)):
            return False
    # multiplicity structure must be exact
    return [got[i] == got[i + 1] for i in range(len(got) - 1)] == [exp[i] == exp[i + 1] for i in range(len(exp) - 1)]


def like(state_values, x):
    """argument in the number flavour of the state; a value equal to an existing knot is passed as that very knot
    (a float copy of a Fraction knot would be a nearly-coincident knot, which is outside every property's domain)"""
    for v in state_values:
        try:
            if lib.to_frac(v) == x:
                return v
        except Exception:  # noqa: BLE001
            pass
    if has_float(state_values):
        return float(x)
    x = F(x)
    if all(isinstance(v, int) for v in state_values) and x.denominator == 1:
        return int(x)
    return x


# ---------------------------------------------------------------- menu
def partners(U, p, vals):
    a, b = U[0], U[-1]
    allk = rb.knots_of(U)
    wide = max(zip(allk[:-1], allk[1:]), key=lambda sp_: (sp_[1] - sp_[0], -sp_[0]))
    # a position that is either an existing knot or far from all of them: the plain midpoint of the interval can be a
    # rounding distance away from a float knot (0.4999999999999999 vs 0.5), i.e. a nearly coincident knot
    mid = (a + b) / 2
    if any(0 < abs(mid - k) < F(1, 1000) for k in allk):
        mid = wide[0] + (wide[1] - wide[0]) * F(1, 2)
    ks = allk[1:-1]
    out = []
    out.append(("same_degree_mid", [a] * (p + 1) + [mid] + [b] * (p + 1), p))
    out.append(("higher_bezier", [a] * (p + 2) + [b] * (p + 2), p + 1))
    V = [a] * (p + 1)
    for k in ks:
        V += [k] * min(p + 1, rb.mult(U, k) + 1)
    V += [b] * (p + 1)
    out.append(("same_knots_more_mult", V, p))
    if p >= 1:
        V = [a] * p + ks + [b] * p
        out.append(("lower_degree_simple", V, p - 1))
    out.append(("other_interval", [a] * (p + 1) + [b + 1] * (p + 1), p))
    return [(lab, [like(vals, x) for x in V], q) for lab, V, q in out]


def menu(state):
    vals, p = state
    U = exact(vals)
    a, b = U[0], U[-1]
    ks = rb.knots_of(U)
    spans = list(zip(ks[:-1], ks[1:]))
    wide = max(spans, key=lambda s: (s[1] - s[0], -s[0]))
    new = wide[0] + (wide[1] - wide[0]) * F(2, 5)
    L = lambda x: like(vals, x)  # noqa: E731
    nodes = [("existing", k) for k in ks[1:-1]] + [("new", new)]
    if a < 0 < b and F(0) not in ks:
        nodes.append(("zero", F(0)))
    nodes += [("umin", a), ("umax", b), ("below", a - 1), ("above", b + 1)]
    m = []
    for lab, x in nodes:
        for op in ("insert", "iadd", "remove", "isub"):
            m.append((op, [L(x)], lab))
    m.append(("insert", [L(new), L(new)], "new_twice"))
    m.append(("insert", [L(a), L(b)], "balanced_ends"))
    m.append(("remove", [L(a), L(b)], "balanced_ends"))
    # the same requests in a tuple instead of a list
    m.append(("insert", (L(new), L(new)), "new_twice_tuple"))
    m.append(("iadd", (L(new),), "new_tuple"))
    if ks[1:-1]:
        m.append(("remove", (L(ks[1]),), "existing_tuple"))
        m.append(("isub", (L(ks[1]),), "existing_tuple"))
    m.append(("insert", [], "empty"))
    m.append(("remove", [], "empty"))
    m.append(("insert", [L(new), L(b + 1)], "new_and_above"))
    m.append(("remove", ks[1:2] and [L(ks[1]), L(a - 1)] or [L(a - 1)], "existing_and_below"))
    for op in ("insert", "remove"):
        m.append((op, ["asd"], "nonnumeric"))
        m.append((op, [None], "nonnumeric"))
        m.append((op, None, "nonnumeric"))
    for s in (1, F(-1, 2)):
        m.append(("shift", L(s), "num"))
    m.append(("iadd_scalar", L(1), "num"))
    m.append(("isub_scalar", L(F(1, 2)), "num"))
    m.append(("shift", "a", "nonnumeric"))
    for s in (2, F(1, 2)):
        m.append(("scale", L(s), "positive"))
    m.append(("scale", L(0), "zero"))
    m.append(("scale", L(-1), "negative"))
    m.append(("scale", "a", "nonnumeric"))
    m.append(("imul", L(2), "positive"))
    m.append(("idiv", L(2), "positive"))
    m.append(("normalize", None, ""))
    for cls in ("float", "Fraction", "int"):
        m.append(("convert", cls, cls))
    m.append(("degree", p + 1, "up"))
    m.append(("degree", p - 1, "down"))
    m.append(("degree", p, "same"))
    m.append(("degree", -1, "negative"))
    for lab, V, q in partners(U, p, vals):
        for op in ("ior", "iand", "or", "and"):
            m.append((op, (V, q), lab))
    for lab, x in nodes[:2] + nodes[-4:]:
        m.append(("add", [L(x)], lab))
        m.append(("sub", [L(x)], lab))
        m.append(("split", [L(x)], lab))
    m.append(("split", [L(k) for k in ks], "all_knots"))
    m.append(("split", [], "empty"))
    m.append(("split", ["asd"], "nonnumeric"))
    m.append(("add_scalar", L(1), "num"))
    m.append(("sub_scalar", L(1), "num"))
    m.append(("mul", L(2), "positive"))
    m.append(("rmul", L(2), "positive"))
    m.append(("truediv", L(2), "positive"))
    m.append(("mul", L(-1), "negative"))
    m.append(("copy", None, ""))
    m.append(("deepcopy", None, ""))
    m.append(("eq", None, ""))
    return m


MUTATING = {"insert", "iadd", "remove", "isub", "shift", "iadd_scalar", "isub_scalar", "scale", "imul", "idiv",
            "normalize", "convert", "degree", "ior", "iand"}
CLS = {"float": float, "Fraction": F, "int": int}


def apply_lib(kv, op, arg):
    """run the operation on the real object; returns the returned value"""
    KV = lib.KnotVector
    if op == "insert":
        return kv.insert(arg)
    if op == "remove":
        return kv.remove(arg)
    if op in ("iadd", "iadd_scalar"):
        kv += arg
        return kv
    if op in ("isub", "isub_scalar"):
        kv -= arg
        return kv
    if op == "shift":
        return kv.shift(arg)
    if op == "scale":
        return kv.scale(arg)
    if op == "imul":
        kv *= arg
        return kv
    if op == "idiv":
        kv /= arg
        return kv
    if op == "normalize":
        return kv.normalize()
    if op == "convert":
        return kv.convert(CLS[arg])
    if op == "degree":
        kv.degree = arg
        return kv
    if op == "ior":
        kv |= KV(arg[0])
        return kv
    if op == "iand":
        kv &= KV(arg[0])
        return kv
    if op == "or":
        return kv | KV(arg[0])
    if op == "and":
        return kv & KV(arg[0])
    if op in ("add", "add_scalar"):
        return kv + arg
    if op in ("sub", "sub_scalar"):
        return kv - arg
    if op == "mul":
        return kv * arg
    if op == "rmul":
        return arg * kv
    if op == "truediv":
        return kv / arg
    if op == "split":
        return kv.split(arg)
    if op == "copy":
        return copy.copy(kv)
    if op == "deepcopy":
        return copy.deepcopy(kv)
    if op == "eq":
        return kv == KV(list(kv))
    raise KeyError(op)


def model(U, p, op, arg):
    if op in ("insert", "iadd", "add"):
        return km.insert(U, p, arg)
    if op in ("remove", "isub", "sub"):
        return km.remove(U, p, arg)
    if op in ("shift", "iadd_scalar", "add_scalar"):
        return km.shift(U, p, arg)
    if op in ("isub_scalar", "sub_scalar"):
        return km.shift(U, p, -arg)
    if op in ("scale", "imul", "mul", "rmul"):
        return km.scale(U, p, arg)
    if op in ("idiv", "truediv"):
        return km.scale(U, p, 1 / F(arg)) if km.is_num(arg) and arg != 0 else ("reject", False)
    if op == "normalize":
        return km.normalize(U, p)
    if op == "convert":
        if arg == "int" and any(k.denominator != 1 for k in U):
            return ("reject", True)
        return ("ok", list(U), p)
    if op == "degree":
        return km.set_degree(U, p, arg)
    if op in ("ior", "or"):
        return km.union(U, p, exact(arg[0]), arg[1])
    if op in ("iand", "and"):
        return km.intersection(U, p, exact(arg[0]), arg[1])
    if op == "split":
        return km.split(U, p, arg)
    if op in ("copy", "deepcopy"):
        return ("ok", list(U), p)
    if op == "eq":
        return ("ok-value", True)
    raise KeyError(op)


# ---------------------------------------------------------------- invariant
def check_invariant(res, kv, where):
    vals = list(kv)
    try:
        p = kv.degree
        n = kv.npts
    except Exception as e:  # noqa: BLE001
        res.violation("invariant", f"{where}: degree/npts raised {e!r}", inv="properties")
        return False
    bad = []
    if any(not vals[i] <= vals[i + 1] for i in range(len(vals) - 1)):
        bad.append("not sorted")
    if sum(1 for v in vals if v == vals[0]) != p + 1:
        bad.append(f"first value repeated {sum(1 for v in vals if v == vals[0])} times, degree {p}")
    if sum(1 for v in vals if v == vals[-1]) != p + 1:
        bad.append(f"last value repeated {sum(1 for v in vals if v == vals[-1])} times, degree {p}")
    if any(sum(1 for v in vals if v == k) > p + 1 for k in set(vals)):
        bad.append("interior multiplicity > degree+1")
    if len(vals) != p + n + 1:
        bad.append("len != degree+npts+1")
    if not n > p:
        bad.append("npts <= degree")
    if bad:
        res.violation("invariant", f"{where}: vector {vals} degree {p}: " + "; ".join(bad), inv="wellformed")
        return False
    U = exact(vals)
    if tuple(kv.knots) != tuple(sorted(set(vals))) or tuple(kv.limits) != (vals[0], vals[-1]):
        res.violation("invariant", f"{where}: knots/limits disagree with the element list {vals}: {kv.knots} {kv.limits}",
                      inv="knots_limits")
    qs = km.queries(U, p)
    inside = [q for q in qs if U[0] <= q <= U[-1]]
    for q in qs:
        u = like(vals, q)
        res.transition()
        exp_span = km.span(U, p, q)
        ov = lib.outcome(kv.valid, u)
        osp = lib.outcome(kv.span, u)
        om = lib.outcome(kv.mult, u)
        if exp_span is None:
            if ov != ("ok", False):
                res.violation("query", f"{where}: valid({u}) = {ov} outside {vals}", q="valid_outside")
            for nm, o in (("span", osp), ("mult", om)):
                if o[0] == "ok" or o[1] != "ValueError":
                    res.violation("query", f"{where}: {nm}({u}) outside {vals} gave {o[:2]} not ValueError", q=nm + "_outside")
        else:
            if ov != ("ok", True):
                res.violation("query", f"{where}: valid({u}) = {ov} inside {vals}", q="valid")
            if osp[0] != "ok" or osp[1] != exp_span:
                res.violation("query", f"{where}: span({u}) = {osp[:2]} expected {exp_span} in {vals}", q="span",
                              at_umax=q == U[-1])
            if om[0] != "ok" or om[1] != rb.mult(U, q):
                res.violation("query", f"{where}: mult({u}) = {om[:2]} expected {rb.mult(U, q)} in {vals}", q="mult")
    seq = [like(vals, q) for q in inside]
    o = lib.outcome(kv.span, seq)
    if o[0] != "ok" or list(o[1]) != [km.span(U, p, q) for q in inside]:
        res.violation("query", f"{where}: span(list) = {o[:2]} in {vals}", q="span_seq")
    o = lib.outcome(kv.mult, seq)
    if o[0] != "ok" or list(o[1]) != [rb.mult(U, q) for q in inside]:
        res.violation("query", f"{where}: mult(list) = {o[:2]} in {vals}", q="mult_seq")
    o = lib.outcome(kv.valid, seq + [like(vals, qs[-1])])
    if o != ("ok", False):
        res.violation("query", f"{where}: valid(list with outside node) = {o}", q="valid_seq")
    return True


# ---------------------------------------------------------------- transitions
def expand(res, only=None):
    def _expand(state, path):
        vals, p = state
        U = exact(vals)
        tol = has_float(vals)
        before = key(state)
        entries = menu(state)
        if only is not None and not path:
            entries = entries[only:only + 1]
        for op, arg, lab in entries:
            res.transition()
            where = f"history {list(path)} state {list(vals)} op {op}({arg}) [{lab}]"
            try:
                kv = build(state)
            except Exception as e:  # noqa: BLE001
                res.violation("rebuild", f"cannot rebuild state {vals}: {e!r}", op=op)
                return
            exp = model(U, p, op, arg)
            out = lib.outcome(apply_lib, kv, op, arg)
            after = key(state_of(kv))
            mut = op in MUTATING
            tags = dict(op=op, arg=lab)
            res.outcome(f"{'mut' if mut else 'pure'}:{'ok' if out[0] == 'ok' else 'rejected'}")
            if not mut and after != before:
                res.violation("operand_modified", f"{where}: receiver changed to {list(kv)}", **tags)
            if exp[0] == "reject":
                if out[0] == "ok":
                    got = list(kv) if mut else out[1]
                    res.violation("accepted_invalid", f"{where}: accepted, result {got}", **tags)
                    continue
                if lab != "nonnumeric":
                    res.nontriv((before, op, lab))
                if after != before:
                    res.violation("not_atomic", f"{where}: raised {out[1]} but the vector changed to {list(kv)}", **tags)
                if exp[1] and out[1] != "ValueError" and not (lab == "nonnumeric" and out[1] == "TypeError"):
                    res.violation("wrong_exception", f"{where}: raised {out[1]} ({out[2]}) instead of ValueError",
                                  exc=out[1], **tags)
                continue
            if exp[0] == "unspecified":
                if out[0] == "ok":
                    r = kv if mut else out[1]
                    check_invariant(res, r, where + " result")
                elif after != before:
                    res.violation("not_atomic", f"{where}: raised {out[1]} but the vector changed", **tags)
                continue
            if out[0] != "ok":
                if after != before:
                    res.violation("not_atomic", f"{where}: raised {out[1]} and the vector changed to {list(kv)}", **tags)
                res.violation("refused_valid", f"{where}: raised {out[1]}: {out[2]}", exc=out[1], **tags)
                continue
            if exp[0] == "ok-value":
                if op == "split":
                    pieces = out[1]
                    ok = len(pieces) == len(exp[1])
                    if ok:
                        for pc, e in zip(pieces, exp[1]):
                            ok = ok and same_values(exact(list(pc)), e, tol) and pc.degree == p
                            check_invariant(res, pc, where + " piece")
                    if not ok:
                        res.violation("wrong_result", f"{where}: split gave {[list(x) for x in pieces]} expected {exp[1]}", **tags)
                elif out[1] is not True:
                    res.violation("wrong_result", f"{where}: returned {out[1]!r}", **tags)
                continue
            # exp ok with a new vector
            r = kv if mut else out[1]
            if not isinstance(r, lib.KnotVector):
                res.violation("wrong_result", f"{where}: returned {type(r).__name__}", **tags)
                continue
            got = exact(list(r))
            float_res = tol or has_float(list(r)) or op in ("convert",)
            if not same_values(got, exp[1], float_res) or r.degree != exp[2]:
                res.violation("wrong_result", f"{where}: result {list(r)} degree {r.degree}, expected {exp[1]} degree {exp[2]}",
                              **tags)
                continue
            if op in ("copy", "deepcopy"):
                # mutating the copy must not affect the original
                try:
                    r.shift(like(vals, 1))
                except Exception:  # noqa: BLE001
                    pass
                if key(state_of(kv)) != before:
                    res.violation("copy_aliased", f"{where}: mutating the copy changed the original", **tags)
                continue
            if mut:
                if after != before:
                    res.nontriv((before, op, lab))
                    yield (f"{op}({arg})", state_of(kv))
            else:
                check_invariant(res, r, where + " result")
    return _expand


def touch(kv):
    """read every query of the object (so that anything it memoises is filled before the next operation)"""
    try:
        return (kv.degree, kv.npts, tuple(kv.knots), tuple(kv.limits), len(kv), kv.span(kv[0]), kv.mult(kv[-1]), kv.valid(kv[0]))
    except Exception:  # noqa: BLE001
        return None


def run_live(case, res):
    """every sequence of `length` MUTATING menu entries applied to one live object; the reference model is stepped
    alongside and the invariant (all queries against the element list) is evaluated on that same object after each step"""
    _, i, length, _, first = case
    name, vals = ROOTS[i]
    root = (tuple(vals), rb.degree_of(vals))

    def go(kv, state, path, remaining, only=None):
        entries = [m for m in menu(state) if m[0] in MUTATING]
        if only is not None:
            entries = [menu(state)[only]] if menu(state)[only][0] in MUTATING else []
        for op, arg, lab in entries:
            # a fresh live object brought to `state` by replaying the path (not rebuilt from the snapshot)
            obj = lib.KnotVector(list(vals))
            cur = root
            ok = True
            for (pop, parg) in path:
                touch(obj)
                if lib.outcome(apply_lib, obj, pop, parg)[0] != "ok":
                    ok = False
                    break
            if not ok:
                continue
            touch(obj)
            U = exact(list(obj))
            p = obj.degree
            exp = model(U, p, op, arg)
            res.transition()
            out = lib.outcome(apply_lib, obj, op, arg)
            where = f"live history {[x[0] for x in path] + [op]} on one object from {list(vals)} (last argument {arg})"
            tags = dict(op=op, arg=lab, live=True)
            if exp[0] == "ok" and out[0] == "ok":
                got = exact(list(obj))
                if not same_values(got, exp[1], has_float(list(obj)) or op == "convert") or obj.degree != exp[2]:
                    res.violation("wrong_result", f"{where}: {list(obj)} degree {obj.degree}, expected {exp[1]}", **tags)
                    continue
                check_invariant(res, obj, where)
                res.nontriv((name, tuple(x[0] for x in path), op, lab))
                res.state(key(state_of(obj)))
                if remaining > 1:
                    go(None, state_of(obj), path + [(op, arg)], remaining - 1)
            elif exp[0] == "reject" and out[0] == "ok":
                res.violation("accepted_invalid", f"{where}: accepted, now {list(obj)}", **tags)
            elif exp[0] == "ok" and out[0] != "ok":
                res.violation("refused_valid", f"{where}: raised {out[1]}: {out[2]}", exc=out[1], **tags)
            elif out[0] != "ok":
                check_invariant(res, obj, where + " (after the rejected request)")
        res.trace()

    go(None, root, [], length, only=first)
    res.observe((res.transitions, sorted(res.outcomes.items())))


def run_case(case, res):
    if case[0] == "live":
        return run_live(case, res)
    if case[0] == "bfs":
        _, i, depth, budget, entry = case
        name, vals = ROOTS[i]
        root = (tuple(vals), rb.degree_of(vals))

        def chk(state, path):
            try:
                kv = build(state)
            except Exception as e:  # noqa: BLE001
                res.violation("rebuild", f"state {state[0]} reached by {list(path)} cannot be rebuilt: {e!r}")
                return
            if state_of(kv) != state and key(state_of(kv)) != key(state):
                res.violation("rebuild", f"state {state} rebuilt as {state_of(kv)}")
            check_invariant(res, kv, f"history {list(path)}")

        def chk_nonroot(state, path):
            if path or entry == 0:  # the root's own invariant is evaluated once, by the case of its first entry
                chk(state, path)

        nstates, done, capped = bfs([root], key, chk_nonroot, expand(res, entry), depth, res, budget)
        res.trace(res.transitions)
        res.observe((nstates, done, capped, res.transitions, sorted(res.outcomes.items())))
        return
    # constructor enumeration
    _, start, cnt, _, _ = case
    for lab, args in ctor_literals()[start:start + cnt]:
        res.transition()
        res.trace()
        good = km.ctor(*args)
        out = lib.outcome(lib.KnotVector, *copy.deepcopy(args))
        res.state(("ctor", lib.tagdeep(args[0]) if not isinstance(args[0], (str, type(None), int)) else args[0], args[1:]))
        res.outcome(f"ctor:{'ok' if out[0] == 'ok' else 'rejected'}")
        where = f"KnotVector{args} [{lab}]"
        if good:
            if out[0] != "ok":
                res.violation("refused_valid", f"{where} raised {out[1]}: {out[2]}", op="ctor", arg=lab, exc=out[1])
                continue
            kv = out[1]
            if list(kv) != list(args[0]) or (len(args) > 1 and kv.degree != args[1]):
                res.violation("wrong_result", f"{where} built {list(kv)} degree {kv.degree}", op="ctor", arg=lab)
            check_invariant(res, kv, where)
            res.nontriv(("ctor", repr(args)))
        else:
            res.nontriv(("ctor", repr(args)))
            if out[0] == "ok":
                res.violation("accepted_invalid", f"{where} accepted: {list(out[1])} degree {out[1].degree}", op="ctor", arg=lab)
            elif out[1] != "ValueError":
                nonnum = lab in ("with_none", "with_str", "nested", "literal") and out[1] == "TypeError"
                if not nonnum:
                    res.violation("wrong_exception", f"{where} raised {out[1]} ({out[2]}) instead of ValueError", op="ctor",
                                  arg=lab, exc=out[1])
    res.observe(sorted(res.outcomes.items()))
