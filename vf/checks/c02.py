"""C02 - basis functions obey the Cox-de Boor definition for every index and sub-degree."""
from fractions import Fraction as F

from ..engine import alphabets as al
from ..engine import lib
from ..ref import bspline as rb

ID = "C02"
RULE = ("enum: every clamped knot vector of the alphabets x sub-degree j in 0..p x weights {None, generic, {1,2,1/3}^n n<=3} "
        "x {Fraction, float}: the full table f[:, j](u) at every knot, end and p+2 points per span is compared with the "
        "pointwise Cox-de Boor recursion (rational form with weights); then every int index in [-n, n-1], a family of "
        "slices, f[i], f(u) and scalar/sequence call shapes must select rows of that table. state = (knot vector, j, "
        "weights, representation); transition = one evaluator call compared; non-trivial = distinct (knot vector, j, u) "
        "where at least two basis functions are non-zero or u is a repeated knot or the right end")
ASSUMPTIONS = ["degrees/knot positions bounded by the listed alphabets", "float comparison 1e-9 relative"]


def bounds(tier, seed):
    return {"pmax": 3 if tier == "quick" else 5, "kmax": 2 if tier == "quick" else 3,
            "alphabets": al.tier_alphabets(tier, seed)}


def cases(tier, seed):
    b = bounds(tier, seed)
    for p, U in al.knotvectors("K5", 2 if tier == "quick" else 3, 2):
        yield ("K5", p, U)  # far from the origin relative to the spacing
    for K in b["alphabets"]:
        for p, U in al.knotvectors(K, b["pmax"], b["kmax"]):
            if tier == "thorough" and p >= 4 and len(set(U)) > 4:
                continue
            yield (K, p, U)


def describe(case):
    return {"alphabet": case[0], "degree": case[1], "knotvector": list(case[2])}


def slices(n):
    return [slice(None), slice(0, n), slice(1, None), slice(None, -1), slice(None, None, 2), slice(None, None, -1),
            slice(-2, None), slice(1, max(1, n - 1))]


def ref_table(U, j, W, prm, n):
    cols = []
    for u in prm:
        N = rb.coxdeboor_all(U, j, u)[:n]
        if W is not None:
            d = sum(x * w for x, w in zip(N, W))
            N = [x * w / d for x, w in zip(N, W)]
        cols.append(N)
    return [[cols[k][i] for k in range(len(prm))] for i in range(n)]  # table[i][k]


def run_case(case, res):
    K, p, U = case
    U = list(U)
    n = len(U) - p - 1
    prm0 = al.params(U, p, near=True)
    prm = prm0
    wopts = [None, al.generic_weights(n)] + list(al.small_weight_vectors(n, 3))[1:]
    for rep in ("frac", "float"):
        exact = rep == "frac"
        for W in (wopts if exact else wopts[:2]):
            try:
                f = lib.Function(lib.mk_kv(U, rep))
                if W is not None:
                    f.weights = lib.conv(W, rep)
            except Exception as e:  # noqa: BLE001
                res.violation("construct", f"Function({U}) weights={W} raised {e!r}", rep=rep)
                continue
            if not exact:
                near = [lib.to_frac(float(k) + d) for k in rb.knots_of(U)[1:-1] for d in (-1e-10, 1e-10)]
                prm = prm0 + [u for u in near if U[0] < u < U[-1]]
            else:
                prm = prm0
            Uref = U
            if not exact:
                # the reference works with the exact values of the floats actually passed (knots and parameters)
                Uref = [lib.to_frac(float(k)) for k in U]
                prm = sorted(set(lib.to_frac(float(u)) for u in prm))
                prm = [u for u in prm if Uref[0] <= u <= Uref[-1]]
            args = [lib.conv(u, rep) for u in prm]
            for j in range(p + 1):
                res.state((U, j, W, rep))
                T = ref_table(Uref, j, W, prm, n)
                tags = dict(rep=rep, rational=W is not None, sub=("p" if j == p else "lower"))
                where = f"U={U} j={j} W={W} rep={rep}"
                # full table, sequence call
                res.transition()
                out = lib.outcome(lambda: f[:, j](args))
                if out[0] != "ok":
                    res.violation("exception", f"f[:, {j}](nodes) raised {out[1]}: {out[2]}; {where}", exc=out[1], **tags)
                    continue
                tab = out[1]
                if not _table_ok(res, tab, T, exact, where, "f[:, j](seq)", tags):
                    continue
                got = [[lib.to_frac(x) for x in row] for row in tab]
                # the same nodes in decreasing and in zig-zag order (as a list, and as a tuple): column k belongs to node k
                m = len(args)
                zig = [k // 2 if k % 2 == 0 else m - 1 - k // 2 for k in range(m)]
                for perm, box in ((list(range(m))[::-1], list), (zig, tuple)):
                    res.transition()
                    o = lib.outcome(lambda: f[:, j](box(args[k] for k in perm)))
                    Tp = [[T[i][k] for k in perm] for i in range(n)]
                    if o[0] != "ok":
                        res.violation("exception", f"f[:, {j}](unsorted nodes) raised {o[1]}: {o[2]}; {where}", exc=o[1], **tags)
                    else:
                        _table_ok(res, o[1], Tp, exact, where + f" nodes in order {perm}", "f[:, j](unsorted seq)", tags)
                # derived facts on the library's own values
                for k, u in enumerate(prm):
                    col = [got[i][k] for i in range(n)]
                    if any(x < (0 if exact else -F(1, 10 ** 12)) for x in col):  # floats: non-negative up to rounding
                        res.violation("negative", f"negative basis value at u={u}; {where}", **tags)
                    if j == p and not (sum(col) == 1 if exact else lib.close(sum(col), 1)):
                        res.violation("partition", f"sum_i f[i,p]({u}) = {sum(col)}; {where}", **tags)
                    if W is None:
                        for i in range(n):
                            if (col[i] != 0 if exact else abs(col[i]) > F(1, 10 ** 12)) and not (Uref[i] <= u <= Uref[i + j + 1]):
                                res.violation("support", f"f[{i},{j}]({u}) = {col[i]} outside its support; {where}", **tags)
                    if u == Uref[-1] or rb.mult(Uref, u) >= 2 or sum(1 for x in col if x != 0) >= 2:
                        res.nontriv((U, j, u))
                # scalar calls on the full slice
                for k, u in enumerate(args):
                    res.transition()
                    o = lib.outcome(lambda: f[:, j](u))
                    if o[0] != "ok":
                        res.violation("exception", f"f[:, {j}]({u}) raised {o[1]}; {where}", exc=o[1], **tags)
                        break
                    if not _row_ok(o[1], [T[i][k] for i in range(n)], exact):
                        res.violation("value", f"f[:, {j}]({u}) = {o[1]} != {[T[i][k] for i in range(n)]}; {where}",
                                      call="scalar", **tags)
                        break
                # every int index, sequence call; scalar call at three parameters
                for i in list(range(-n, n)):
                    res.transition()
                    o = lib.outcome(lambda: f[i, j](args))
                    if o[0] != "ok" or not _row_ok(o[1], T[i], exact):
                        res.violation("index", f"f[{i}, {j}](nodes) = {o[1:]} != row {T[i]}; {where}", index="int", **tags)
                        break
                    for k in (0, len(args) // 2, len(args) - 1):
                        res.transition()
                        o = lib.outcome(lambda: f[i, j](args[k]))
                        try:
                            ok = o[0] == "ok" and _row_ok([o[1]], [T[i][k]], exact)
                        except Exception:  # noqa: BLE001
                            ok = False
                        if not ok:
                            res.violation("index", f"f[{i}, {j}]({args[k]}) = {o[1:]} != {T[i][k]}; {where}", index="int_scalar",
                                          **tags)
                            break
                for sl in slices(n):
                    res.transition()
                    o = lib.outcome(lambda: f[sl, j](args))
                    exp = T[sl]
                    ok = o[0] == "ok" and len(o[1]) == len(exp) and all(_row_ok(r, e, exact) for r, e in zip(o[1], exp))
                    if not ok:
                        res.violation("index", f"f[{sl}, {j}](nodes) = {o[1:]} != rows {exp}; {where}", index="slice", **tags)
                if j == p:
                    res.transition(3)
                    o1 = lib.outcome(lambda: f(args))
                    if o1[0] != "ok" or not all(_row_ok(r, e, exact) for r, e in zip(o1[1], T)) or len(o1[1]) != n:
                        res.violation("index", f"f(nodes) != f[:, p](nodes); {where}", index="call", **tags)
                    o2 = lib.outcome(lambda: f[:](args))
                    if o2[0] != "ok" or not all(_row_ok(r, e, exact) for r, e in zip(o2[1], T)) or len(o2[1]) != n:
                        res.violation("index", f"f[:](nodes) != f[:, p](nodes); {where}", index="single_slice", **tags)
                    for i in (0, -1, n // 2):
                        o3 = lib.outcome(lambda: f[i](args))
                        if o3[0] != "ok" or not _row_ok(o3[1], T[i], exact):
                            res.violation("index", f"f[{i}](nodes) != f[{i}, p](nodes); {where}", index="single_int", **tags)
    mutation_history(res, U, p, n)
    ints = [k for k in rb.knots_of(U) if k.denominator == 1]
    if ints and p <= 3:
        # numpy integer parameters (np.arange, integer arrays): same values as for the plain integers
        f = lib.Function(lib.mk_kv(U))
        for j in range(p + 1):
            res.transition()
            T = ref_table(U, j, None, ints, n)
            o = lib.outcome(lambda: f[:, j]([lib.np.int64(int(k)) for k in ints]))
            tags = dict(rep="npint_param", rational=False, sub="p" if j == p else "lower")
            if o[0] != "ok":
                res.violation("exception", f"f[:, {j}](numpy integers) raised {o[1]}: {o[2]}; U={U}", exc=o[1], **tags)
            elif any(abs(lib.to_frac(x) - e) > F(1, 10 ** 9) for row, erow in zip(o[1], T) for x, e in zip(row, erow)):
                res.violation("value", f"f[:, {j}](numpy integers {ints}) = {o[1]} != {T}; U={U}", call="npint", **tags)
    res.observe(sorted(res.outcomes.items()))


def mutation_history(res, U, p, n):
    """one Function object evaluated, its knot vector changed in place through the public API (degree setter, knot
    insertion/removal on f.knotvector, shift/scale, assignment), evaluated again: the table must follow the knot vector"""
    if p > 3:
        return
    ks = rb.knots_of(U)
    mid = ks[0] + (ks[1] - ks[0]) * F(2, 5)
    f = lib.Function(lib.mk_kv(U))
    steps = [("initial", lambda: None, list(U), p)]
    V1 = sorted(list(U) + ks)
    steps.append(("degree+1", lambda: setattr(f, "degree", p + 1), V1, p + 1))
    V2 = sorted(V1 + [mid])
    steps.append(("knotvector.insert", lambda: f.knotvector.insert([mid]), V2, p + 1))
    steps.append(("knotvector.remove", lambda: f.knotvector.remove([mid]), V1, p + 1))
    steps.append(("degree-1", lambda: setattr(f, "degree", p), list(U), p))
    V3 = [2 * k + 1 for k in U]
    steps.append(("scale+shift", lambda: f.knotvector.scale(2).shift(1), V3, p))
    V4 = sorted(list(U) + [mid])
    steps.append(("assign", lambda: setattr(f, "knotvector", lib.mk_kv(V4)), V4, p))
    done = []
    for name, action, V, q in steps:
        res.transition()
        o = lib.outcome(action)
        done.append(name)
        tags = dict(history=name, rep="frac", rational=False, sub="history")
        where = f"Function({U}) after {done}"
        if o[0] != "ok":
            res.violation("exception", f"{where}: raised {o[1]}: {o[2]}", exc=o[1], **tags)
            return
        if lib.exact_kv(f.knotvector) != V or f.degree != q:
            res.violation("history_knots", f"{where}: knot vector {list(f.knotvector)} degree {f.degree}, expected {V}", **tags)
            return
        nn = len(V) - q - 1
        prm = al.params(V, q)
        for j in range(q + 1):
            res.transition()
            T = ref_table(V, j, None, prm, nn)
            out = lib.outcome(lambda: f[:, j](prm))
            if out[0] != "ok":
                res.violation("exception", f"{where}: f[:, {j}](nodes) raised {out[1]}: {out[2]}", exc=out[1], **tags)
                return
            if not _table_ok(res, out[1], T, True, where + f" j={j}", "f[:, j](seq)", tags):
                return
        res.state((tuple(U), "history", name))
        res.outcome("history_step")


def _row_ok(row, exp, exact):
    try:
        row = list(row)
    except TypeError:
        return False
    if len(row) != len(exp):
        return False
    for x, e in zip(row, exp):
        if exact:
            if not lib.is_exact_number(x) or lib.to_frac(x) != e:
                return False
        elif not lib.close(x, e):
            return False
    return True


def _table_ok(res, tab, T, exact, where, what, tags):
    try:
        rows = [list(r) for r in tab]
    except TypeError:
        res.violation("shape", f"{what} returned {tab!r}; {where}", **tags)
        return False
    if len(rows) != len(T) or any(len(r) != len(e) for r, e in zip(rows, T)):
        res.violation("shape", f"{what} has shape {len(rows)}x{[len(r) for r in rows][:3]}, expected {len(T)}x{len(T[0])}; {where}", **tags)
        return False
    for i, (r, e) in enumerate(zip(rows, T)):
        for k, (x, ex) in enumerate(zip(r, e)):
            if exact:
                if lib.to_frac(x) != ex:
                    res.violation("value", f"{what}: N[{i}] at node {k} = {x} != {ex}; {where}", call="sequence", **tags)
                    return False
                if not lib.is_exact_number(x):
                    res.violation("type", f"{what}: inexact type {type(x).__name__} for rational data; {where}", **tags)
                    return False
            elif not lib.close(x, ex):
                res.violation("value", f"{what}: N[{i}] at node {k} = {x} vs {ex}; {where}", call="sequence", **tags)
                return False
    res.outcome("table_equal")
    return True
