"""C07 - splitting restricts the curve exactly; joining adjacent pieces restores it."""
import itertools
from fractions import Fraction as F

from ..engine import alphabets as al
from ..engine import lib
from ..ref import bspline as rb
from ..ref import space as sp

ID = "C07"
RULE = ("enum, depth 2 (split then join): every knot vector of the alphabets x cut sets {None (all knots), every single node "
        "of {each existing knot, mid-spans, 0, umin, umax}, pairs of interior candidates, a repeated node, an outside node} "
        "x weights {None, generic} x control points {unit vectors (linearity), generic, 2-D}: number of pieces, each piece "
        "clamped on its sub-interval and identical to the original there (exact piecewise rational comparison); then every "
        "adjacent pair and the full left-to-right join of the pieces must equal the original on the original knot vector "
        "with junction multiplicities as needed; independently built adjacent pairs (degrees equal/different; continuous, "
        "C1, discontinuous junction; polynomial/rational) and non-adjacent pairs (ValueError). state = (curve, cut set) / "
        "(A, B) pair; transition = one split or join compared; non-trivial = distinct configurations with at least two "
        "pieces or an accepted join")
ASSUMPTIONS = ["linearity in control points", "degrees/knot positions bounded by the alphabets",
               "at the junction parameter itself the joined curve may take either one-sided value"]


def bounds(tier, seed):
    q = tier == "quick"
    return {"pmax": 3, "pmax_seed_alphabet": 1 if q else 3, "kmax": 2 if q else 3, "alphabets": al.tier_alphabets(tier, seed)}


def cases(tier, seed):
    b = bounds(tier, seed)
    for K in b["alphabets"]:
        pmax = b["pmax"] if K == "K0" else b["pmax_seed_alphabet"]
        for p, U in al.knotvectors(K, pmax, b["kmax"]):
            if tier == "thorough" and (p == 3 or K != "K0") and len(set(U)) > 4:
                continue  # three interior knots: core alphabet, degree <= 2
            yield ("split", K, p, U, tier != "quick")
    for i in range(len(PAIRS)):
        yield ("pair", "", i, (), True)


def describe(case):
    if case[0] == "split":
        return {"alphabet": case[1], "degree": case[2], "knotvector": list(case[3])}
    return {"independent_pair": PAIRS[case[2]][0]}


def cost(case):
    return len(case[3]) ** 2 if case[0] == "split" else 1


def cut_sets(U, full=True):
    ks = rb.knots_of(U)
    mids = al.midspans(U)
    singles = [("existing", k) for k in ks[1:-1]] + [("mid", m) for m in mids]
    if ks[0] < 0 < ks[-1] and F(0) not in ks and F(0) not in mids:
        singles.append(("zero", F(0)))
    out = [("all_knots", None)]
    for lab, x in singles:
        out.append((lab, [x]))
    out.append(("umin", [ks[0]]))
    out.append(("umax", [ks[-1]]))
    out.append(("ends_and_mid", [ks[0], mids[0], ks[-1]]))
    out.append(("repeated", [mids[-1], mids[-1]]))
    out.append(("empty", []))  # no cut point besides the ends: the whole curve as one piece
    inter = [x for _, x in singles]
    pairs = list(itertools.combinations(inter, 2))
    if not full and len(pairs) > 3:
        pairs = [pairs[0], pairs[len(pairs) // 2], pairs[-1]]
    for a, b in pairs:
        out.append(("pair", [b, a]))
    out.append(("outside_above", [ks[-1] + F(1, 2)]))
    out.append(("outside_below", [mids[0], ks[0] - 1]))
    return out


def needed_vector(D0, U, p, cuts):
    """original knot vector with each junction knot reduced to the multiplicity the curve needs there"""
    exp = list(U)
    if not D0.is_polynomial():
        return None
    g = D0.refine(cuts)
    for k in cuts:
        if not (U[0] < k < U[-1]):
            continue
        r = sp.continuity_order(g, k)
        need = 0 if r is None else p - r
        have = rb.mult(exp, k)
        for _ in range(have - need):
            exp.remove(k)
        for _ in range(need - have):
            exp.append(k)
    return sorted(exp)


def needed_rational(U, p, P, W, cuts):
    """upper bound for the joined knot vector of a rational curve: what its homogeneous representation needs"""
    H = rb.denote(U, [tuple(F(w) * c for c in (pt if isinstance(pt, tuple) else (pt,))) + (F(w),) for pt, w in zip(P, W)], None, p)
    v = needed_vector(H, U, p, cuts)
    return ("at_most", v, [k for k in cuts if U[0] < k < U[-1]])


def check_join(res, A, B, DA, DB, where, tags, expect_knots=None, D_orig=None):
    res.transition()
    sa, sb = lib.snap_curve(A), lib.snap_curve(B)
    o = lib.outcome(lambda: A | B)
    res.outcome("join:" + ("ok" if o[0] == "ok" else o[1]))
    if lib.snap_curve(A) != sa or lib.snap_curve(B) != sb:
        res.violation("operand_modified", f"{where}: join modified an operand", op="join", **tags)
    if o[0] != "ok":
        res.violation("exception", f"{where}: A|B raised {o[1]}: {o[2]}", op="join", exc=o[1], **tags)
        return None
    J = o[1]
    c = DA.b
    try:
        DJ = lib.curve_pw(J)
    except Exception as e:  # noqa: BLE001
        res.violation("shape", f"{where}: joined curve unreadable {e!r}", op="join", **tags)
        return None
    if DJ.a != DA.a or DJ.b != DB.b:
        res.violation("join_interval", f"{where}: joined curve lives on [{DJ.a},{DJ.b}]", op="join", **tags)
        return None
    if not DJ.same_on(DA, DA.a, c):
        res.violation("join_left", f"{where}: A|B differs from A on A's interval; knots {list(J.knotvector)} ctrlpoints "
                      f"{J.ctrlpoints} weights {J.weights}", op="join", **tags)
        return None
    if not DJ.same_on(DB, c, DB.b):
        res.violation("join_right", f"{where}: A|B differs from B on B's interval; knots {list(J.knotvector)} ctrlpoints "
                      f"{J.ctrlpoints} weights {J.weights}", op="join", **tags)
        return None
    o = lib.outcome(J, c)
    if o[0] != "ok" or lib.to_point(o[1]) not in (DA.value(c, "left"), DB.value(c)):
        res.violation("join_value", f"{where}: (A|B)({c}) = {o[1:]} is neither A({c}) nor B({c})", op="join", **tags)
    if expect_knots is not None and isinstance(expect_knots, tuple):
        # rational curve: ("at_most", vector): a junction knot may keep at most the multiplicity that the homogeneous
        # representation (weighted points and weights) needs; fewer copies are fine when the curve is equal anyway (checked)
        got = lib.exact_kv(J.knotvector)
        bound = expect_knots[1]
        if any(rb.mult(got, k) > rb.mult(bound, k) for k in set(got)) or any(rb.mult(got, k) != rb.mult(bound, k)
                                                                            for k in set(bound) | set(got) if k not in expect_knots[2]):
            res.violation("join_knots", f"{where}: joined knot vector {got}, expected at most {bound} at the junctions {expect_knots[2]}",
                          op="join", **tags)
    elif expect_knots is not None and lib.exact_kv(J.knotvector) != expect_knots:
        res.violation("join_knots", f"{where}: joined knot vector {lib.exact_kv(J.knotvector)}, expected {expect_knots}", op="join", **tags)
    return J


def run_case(case, res):
    if case[0] == "pair":
        return run_pair(case, res)
    _, K, p, U, full = case
    U = list(U)
    n = len(U) - p - 1
    gen, gen2, gw = al.generic_points(n), al.generic_points(n, 2), al.generic_weights(n)
    recip = [1 / w for w in gw]
    for lab, nodes in cut_sets(U, full):
        configs = [(gen, None), (gen, gw), (gen2, None)]
        if lab == "existing":
            configs.append((recip, gw))  # weighted numerator constant: only the weight function needs the knots
        if lab in ("existing", "mid", "zero", "all_knots") and (full or n <= 5):
            configs += [(e, None) for e in al.unit_vectors(n)]
            if full:
                configs.append((gen2, gw))
        configs = [(P, W, "list") for P, W in configs]
        if lab in ("empty", "zero", "mid", "existing", "pair", "repeated", "umin", "ends_and_mid"):
            # the same request in other containers: a tuple, a numpy array (object dtype: exact entries)
            configs += [(gen, None, "tuple"), (gen, None, "array")]
        for P, W, box in configs:
            res.transition()
            c = lib.mk_curve(U, P, W)
            before = lib.snap_curve(c)
            if nodes is None:
                o = lib.outcome(c.split)
            elif box == "array":
                arr = lib.np.empty(len(nodes), dtype=object)
                arr[:] = list(nodes)
                o = lib.outcome(c.split, arr)
            else:
                o = lib.outcome(c.split, tuple(nodes) if box == "tuple" else list(nodes))
            tags = dict(cut=lab, rational=W is not None, box=box)
            where = f"U={U} P={P} W={W} split({nodes}) [{lab}]"
            res.state((tuple(U), lib.tagdeep(P), lib.tagdeep(W), lab, tuple(nodes or ())))
            res.outcome(f"split:{lab}:{'ok' if o[0] == 'ok' else o[1]}")
            if lib.snap_curve(c) != before:
                res.violation("operand_modified", f"{where}: split modified the curve", op="split", **tags)
            if lab.startswith("outside"):
                if o[0] == "ok" or o[1] != "ValueError":
                    res.violation("outside", f"{where}: gave {o[:2]} instead of ValueError", op="split", **tags)
                continue
            if o[0] != "ok":
                res.violation("exception", f"{where}: raised {o[1]}: {o[2]}", op="split", exc=o[1], **tags)
                continue
            pieces = o[1]
            cuts = rb.knots_of(U) if nodes is None else sorted(set([U[0], U[-1]] + [x for x in nodes]))
            if len(pieces) != len(cuts) - 1:
                res.violation("npieces", f"{where}: {len(pieces)} pieces for cut points {cuts}", op="split", **tags)
                continue
            D0 = rb.denote(U, P, W, p)
            ok = True
            for pc, (a, b) in zip(pieces, zip(cuts[:-1], cuts[1:])):
                V = lib.exact_kv(pc.knotvector)
                if not rb.wellformed(V, p) or V[0] != a or V[-1] != b or pc.degree != p:
                    res.violation("piece_knots", f"{where}: piece on [{a},{b}] has knot vector {V}", op="split", **tags)
                    ok = False
                    continue
                expV = [a] * (p + 1) + [k for k in U if a < k < b] + [b] * (p + 1)
                if V != expV:
                    res.violation("piece_knots", f"{where}: piece on [{a},{b}] has knot vector {V}, expected {expV}", op="split", **tags)
                    ok = False
                    continue
                try:
                    Dp = lib.curve_pw(pc)
                except Exception as e:  # noqa: BLE001
                    res.violation("shape", f"{where}: piece unreadable {e!r}", op="split", **tags)
                    ok = False
                    continue
                if not Dp.same(D0.restrict(a, b)):
                    res.violation("piece_function", f"{where}: piece on [{a},{b}] differs from the curve: ctrlpoints {pc.ctrlpoints} "
                                  f"weights {pc.weights}", op="split", **tags)
                    ok = False
                if not lib.all_exact(pc.ctrlpoints) or not lib.all_exact(pc.weights):
                    res.violation("type", f"{where}: inexact numbers in a piece", op="split", **tags)
            if len(pieces) >= 2:
                res.nontriv((tuple(U), lab, tuple(nodes or ()), W is not None))
            if not ok or len(pieces) < 2 or not (P is gen or P is recip or full and P is gen2 and W is None):
                continue
            if not full and W is not None and lab not in ("existing", "mid", "zero"):
                continue  # quick: rational joins (two root searches per join in the library) for single cuts only
            # depth 2: join adjacent pairs and the whole chain
            res.trace()
            jt = dict(cut=lab, rational=W is not None, source="split")
            for i in range(len(pieces) - 1 if (full or len(pieces) == 3) else 0):
                a, m, b = cuts[i], cuts[i + 1], cuts[i + 2]
                check_join(res, pieces[i], pieces[i + 1], D0.restrict(a, m), D0.restrict(m, b),
                           f"{where} pieces {i},{i + 1}", jt)
            if len(pieces) <= 4:
                J = pieces[0]
                good = True
                for i in range(1, len(pieces)):
                    last = i == len(pieces) - 1
                    expect = (needed_vector(D0, U, p, cuts) if W is None else needed_rational(U, p, P, W, cuts)) if last else None
                    J = check_join(res, J, pieces[i], D0.restrict(cuts[0], cuts[i]), D0.restrict(cuts[i], cuts[i + 1]),
                                   f"{where} chain step {i}", jt, expect_knots=expect)
                    if J is None:
                        good = False
                        break
                if good and not lib.curve_pw(J).same(D0):
                    res.violation("join_not_original", f"{where}: joining all pieces does not give back the curve", op="join", **jt)
                if good and W is not None and len(pieces) == 2:
                    # history: split, rescale the weights of one piece (the same function), join
                    res.transition()
                    q0, q1 = c.split(list(nodes)) if nodes is not None else c.split()
                    o2 = lib.outcome(lambda: setattr(q1, "weights", [3 * w for w in q1.weights]))
                    if o2[0] == "ok":
                        check_join(res, q0, q1, D0.restrict(cuts[0], cuts[1]), D0.restrict(cuts[1], cuts[2]),
                                   f"{where} with the right piece's weights rescaled by 3", dict(jt, source="split_rescaled"),
                                   expect_knots=needed_rational(U, p, P, W, cuts))
    res.observe(sorted(res.outcomes.items()))


def _line_ctrl(v0, slope, U, p):
    """control points of the straight line v0 + slope*(u - U[0]) over U (Greville abscissae)"""
    n = len(U) - p - 1
    if p == 0:
        return None
    return [v0 + slope * (sum(U[i + 1:i + p + 1], F(0)) / p - U[0]) for i in range(n)]


def build_pairs():
    out = []
    a, c, b = F(-1), F(0), F(2)
    for pa, pb in itertools.product(range(0, 3), repeat=2):
        UA = [a] * (pa + 1) + ([F(-1, 2)] if pa >= 1 else []) + [c] * (pa + 1)
        UB = [c] * (pb + 1) + ([F(1)] * min(pb, 2) if pb >= 1 else []) + [b] * (pb + 1)
        nA, nB = len(UA) - pa - 1, len(UB) - pb - 1
        PA = al.generic_points(nA)
        for junction in ("continuous", "discontinuous", "line"):
            PB = al.generic_points(nB, None, 1)
            if junction == "continuous":
                PB = [PA[-1]] + PB[1:]
            elif junction == "line":
                if pa == 0 or pb == 0:
                    continue
                PA2 = _line_ctrl(F(3), F(-2), UA, pa)
                PB = _line_ctrl(F(3) + F(-2) * (c - a), F(-2), UB, pb)
                out.append((f"deg({pa},{pb}) straight line through the junction", UA, PA2, None, UB, PB, None, junction))
                continue
            for rat in (False, True):
                WA = al.generic_weights(nA) if rat else None
                WB = list(reversed(al.generic_weights(nB))) if rat else None
                out.append((f"deg({pa},{pb}) {junction} {'rational' if rat else 'polynomial'}", UA, PA, WA, UB, PB, WB, junction))
            if junction == "continuous":
                out.append((f"deg({pa},{pb}) continuous rational|polynomial", UA, PA, al.generic_weights(nA), UB, PB, None, junction))
    # 2-D
    UA = [a, a, F(-1, 2), c, c]
    UB = [c, c, c, b, b, b]
    PA = al.generic_points(3, 2)
    PB = [PA[-1]] + al.generic_points(2, 2, 1)
    out.append(("2-D deg(1,2) continuous", UA, PA, None, UB, PB, None, "continuous"))
    out.append(("2-D deg(1,2) discontinuous", UA, PA, None, UB, al.generic_points(3, 2, 1), None, "discontinuous"))
    return out


PAIRS = build_pairs()


def run_pair(case, res):
    name, UA, PA, WA, UB, PB, WB, junction = PAIRS[case[2]]
    pa, pb = rb.degree_of(UA), rb.degree_of(UB)
    A, B = lib.mk_curve(UA, PA, WA), lib.mk_curve(UB, PB, WB)
    DA, DB = rb.denote(UA, PA, WA, pa), rb.denote(UB, PB, WB, pb)
    res.state(name)
    tags = dict(cut="independent", rational=WA is not None or WB is not None, source="independent", junction=junction,
                degrees="equal" if pa == pb else "different")
    J = check_join(res, A, B, DA, DB, f"independent pair {name}: A=({UA},{PA},{WA}) B=({UB},{PB},{WB})", tags)
    if J is not None:
        res.nontriv(name)
        if junction == "line":
            m = rb.mult(lib.exact_kv(J.knotvector), DA.b)
            if m != 0:
                res.violation("join_knots", f"{name}: junction knot kept with multiplicity {m} although the curve is smooth there",
                              op="join", **tags)
    # non-adjacent: shifted B, and swapped order
    res.transition(2)
    B2 = lib.mk_curve([k + 1 for k in UB], PB, WB)
    for X, Y, lab in ((A, B2, "gap"), (B, A, "swapped")):
        o = lib.outcome(lambda: X | Y)
        if o[0] == "ok" or o[1] != "ValueError":
            res.violation("non_adjacent", f"{name}: joining non-adjacent curves ({lab}) gave {o[:2]} instead of ValueError", op="join",
                          arg=lab)
        res.outcome("non_adjacent:" + (o[1] if o[0] != "ok" else "ok"))
    res.observe(sorted(res.outcomes.items()))
