"""C18 - generators and affine maps produce exactly the advertised knot vectors."""
import copy
import itertools
from fractions import Fraction as F

from ..engine import alphabets as al
from ..engine import lib
from ..engine.env import RandomStub
from ..ref import bspline as rb
from . import c03

ID = "C18"
RULE = ("enum with the random source as an enumerated environment: bezier/integer/uniform for every degree 0..5, every "
        "npts-degree in the stated range and cls in {int, float, Fraction}; weight() for every weight vector of a small "
        "alphabet; random() with np.random.randint replaced by a stub that replays every answer (one span: all 999 values; "
        "two spans: a grid including the extremes, all 999^2 in the thorough tier for one degree; three spans: a grid); "
        "shift/scale/normalize over the C03 initial vectors; invariance of basis functions and curves under s*U+a on the "
        "K0 alphabet. state = one generator call / one (vector, map); transition = one call compared; non-trivial = "
        "distinct generator outputs / mapped vectors")
ASSUMPTIONS = ["random(): the environment answer is any vector of ints in [1, 999] (numpy's contract for randint(1, 1000, m))",
               "float spacing compared at 1e-12; interval ends compared exactly, as the statement says"]
CLS = {"int": int, "float": float, "Fraction": F}
SHIFTS = (F(1), F(-1, 2), F(7, 3))
FAR_SHIFT = F(2 * 10 ** 6)  # magnitude / spacing > 1e6
SCALES = (F(2), F(1, 2), F(7, 3))


def bounds(tier, seed):
    q = tier == "quick"
    return {"pmax": 5, "span_max": 130 if q else 400, "random2_grid": 60 if q else 200, "random3_grid": 12 if q else 24,
            "random2_full_for_degree": None if q else 1}


GRID_EXTRA = (1, 2, 3, 7, 49, 98, 107, 500, 511, 512, 997, 998, 999)


def grid(nn):
    vals = sorted(set([1 + (998 * i) // (nn - 1) for i in range(nn)]) | set(GRID_EXTRA))
    return vals


def cases(tier, seed):
    b = bounds(tier, seed)
    for p in range(b["pmax"] + 1):
        for cls in CLS:
            for lo in range(1, b["span_max"] + 1, 65):
                yield ("gen", p, cls, lo, min(lo + 65, b["span_max"] + 1))
    for p in (0, 2, 5):
        for cls in CLS:
            for lo in range(1, 1000, 250):
                yield ("random1", p, cls, lo, min(lo + 250, 1000))
    g2 = grid(b["random2_grid"])
    for p in (0, 1, 3):
        for cls in CLS:
            for a in g2:
                yield ("random2", p, cls, a, b["random2_grid"])
    if b["random2_full_for_degree"] is not None:
        for a in range(1, 1000):
            yield ("random2", b["random2_full_for_degree"], "float", a, -1)
    g3 = grid(b["random3_grid"])
    for p in (1, 2):
        for cls in ("float", "Fraction"):
            for a in g3:
                yield ("random3", p, cls, a, b["random3_grid"])
    for p in range(4):
        yield ("weight", p, "", 0, 0)
    for i in range(len(c03.ROOTS)):
        yield ("affine", i, "", 0, 0)
    for pp, U in al.knotvectors("K0", 2, 2):
        yield ("invariance", pp, U, 0, 0)


def describe(case):
    return {"kind": case[0], "args": [str(x) for x in case[1:]]}


def check_vector(res, kv, p, n, what, tags, cls=None, limits01=False, spacing=None, simple=True):
    """common oracle: clamped, exact degree/npts, simple interior knots, optional exact limits and spacing"""
    vals = list(kv)
    ok = True
    if kv.degree != p or kv.npts != n or len(vals) != p + n + 1:
        res.violation("shape", f"{what}: degree {kv.degree} npts {kv.npts} len {len(vals)}, expected degree {p} npts {n}", **tags)
        return False
    U = [lib.to_frac(v) for v in vals]
    if not rb.wellformed(U, p):
        res.violation("not_clamped", f"{what}: {vals} is not a clamped vector of degree {p}", **tags)
        return False
    if cls is not None:
        want = {"int": (int,), "float": (float, lib.np.floating), "Fraction": (F,)}[cls]
        if cls == "Fraction" and not all(isinstance(v, F) or (isinstance(v, int) and not isinstance(v, bool)) for v in vals):
            res.violation("type", f"{what}: non-Fraction knots for cls=Fraction: {[type(v).__name__ for v in vals][:6]}", **tags)
            ok = False
    interior = U[p + 1:n]
    if simple and any(interior[i] >= interior[i + 1] for i in range(len(interior) - 1)):
        res.violation("not_simple", f"{what}: interior knots not simple/increasing: {vals}", **tags)
        ok = False
    if simple and interior and not (U[0] < interior[0] and interior[-1] < U[-1]):
        res.violation("not_simple", f"{what}: interior knot coincides with an end: {vals}", **tags)
        ok = False
    if limits01:
        lim = tuple(kv.limits)
        if not (lim[0] == 0 and lim[1] == 1 and vals[0] == 0 and vals[-1] == 1):
            res.violation("limits", f"{what}: interval is {lim!r}, not exactly [0, 1]", **tags)
            ok = False
    if spacing is not None:
        ks = U[p:n + 1]
        for i in range(len(ks) - 1):
            d = ks[i + 1] - ks[i]
            exp = spacing[i] if isinstance(spacing, list) else spacing
            exact = all(isinstance(v, (int, F)) for v in vals)
            if (d != exp) if exact else (abs(d - exp) > F(1, 10 ** 12)):
                res.violation("spacing", f"{what}: spacing {float(d)} at span {i}, expected {exp}", **tags)
                ok = False
                break
    return ok


def run_case(case, res):
    kind = case[0]
    G = lib.GeneratorKnotVector
    if kind == "gen":
        _, p, cls, lo, hi = case
        C = CLS[cls]
        if lo == 1:
            res.transition()
            o = lib.outcome(G.bezier, p, C)
            tags = dict(gen="bezier", cls=cls)
            if o[0] != "ok":
                res.violation("exception", f"bezier({p},{cls}) raised {o[1]}", **tags)
            else:
                check_vector(res, o[1], p, p + 1, f"bezier({p},{cls})", tags, cls, limits01=True)
                res.nontriv(("bezier", p, cls))
            res.state(("bezier", p, cls))
        for m in range(lo, hi):
            n = p + m
            for gen in ("integer", "uniform"):
                res.transition()
                res.state((gen, p, n, cls))
                tags = dict(gen=gen, cls=cls)
                o = lib.outcome(getattr(G, gen), p, n, C)
                what = f"{gen}({p},{n},{cls})"
                if o[0] != "ok":
                    res.violation("exception", f"{what} raised {o[1]}: {o[2]}", exc=o[1], **tags)
                    continue
                res.nontriv((gen, p, n, cls))
                if gen == "integer":
                    check_vector(res, o[1], p, n, what, tags, cls, spacing=F(1))
                    if tuple(o[1].limits) != (0, m):
                        res.violation("limits", f"{what}: interval {o[1].limits}", **tags)
                else:
                    check_vector(res, o[1], p, n, what, tags, cls, limits01=True, spacing=F(1, m))
                res.outcome(gen)
        return res.observe(sorted(res.outcomes.items()))
    if kind in ("random1", "random2", "random3"):
        _, p, cls, a, full = case
        C = CLS[cls]
        if kind == "random1":
            answers = [(x,) for x in range(case[3], case[4])]
        elif kind == "random2":
            second = range(1, 1000) if full < 0 else grid(full)
            answers = [(a, y) for y in second]
        else:
            g = grid(full)
            answers = [(a, y, z) for y in g for z in g]
        for ans in answers:
            m = len(ans)
            n = p + m
            res.transition()
            res.state(("random", p, cls, ans))
            tags = dict(gen="random", cls=cls, spans=m)
            with RandomStub(ans) as stub:
                o = lib.outcome(G.random, p, n, C)
            what = f"random({p},{n},{cls}) with draw {ans}"
            if o[0] != "ok":
                res.violation("exception", f"{what} raised {o[1]}: {o[2]}", exc=o[1], **tags)
                continue
            if len(stub.calls) != 1:
                res.outcome("random_source_not_used_once")
            tot = sum(ans)
            spacing = [F(x, tot) for x in ans]
            if check_vector(res, o[1], p, n, what, tags, cls, limits01=True, spacing=spacing):
                res.nontriv(("random", p, cls, ans))
            res.outcome("random")
        return res.observe(sorted(res.outcomes.items()))
    if kind == "weight":
        p = case[1]
        alphabet = (1, 2, F(1, 3), 5, 2.5)
        for m in (1, 2, 3):
            for w in itertools.product(alphabet, repeat=m):
                if len({type(x) for x in w}) > 1 and any(isinstance(x, float) for x in w) and not all(isinstance(x, float) for x in w):
                    continue
                res.transition()
                res.state(("weight", p, w))
                tags = dict(gen="weight", cls=type(w[0]).__name__)
                o = lib.outcome(G.weight, p, list(w))
                what = f"weight({p},{list(w)})"
                if o[0] != "ok":
                    res.violation("exception", f"{what} raised {o[1]}: {o[2]}", exc=o[1], **tags)
                    continue
                exact_cls = "Fraction" if all(isinstance(x, (int, F)) for x in w) and any(isinstance(x, F) for x in w) else None
                if check_vector(res, o[1], p, p + m, what, tags, exact_cls, spacing=[lib.to_frac(x) for x in w]):
                    res.nontriv(("weight", p, w))
                if o[1][0] != 0:
                    res.violation("limits", f"{what}: does not start at 0: {list(o[1])}", **tags)
                res.outcome("weight")
        return res.observe(sorted(res.outcomes.items()))
    if kind == "affine":
        name, vals = c03.ROOTS[case[1]]
        U = [lib.to_frac(v) for v in vals]
        p = rb.degree_of(U)
        isfloat = c03.has_float(vals)
        L = lambda x: c03.like(vals, x)  # noqa: E731

        def compare(kv, exp, what, tags, exact_limits=None):
            got = [lib.to_frac(v) for v in kv]
            res.transition()
            if kv.degree != p or len(got) != len(exp):
                res.violation("shape", f"{what}: degree {kv.degree} len {len(got)}", **tags)
                return
            if [got[i] == got[i + 1] for i in range(len(got) - 1)] != [exp[i] == exp[i + 1] for i in range(len(exp) - 1)]:
                res.violation("multiplicities", f"{what}: multiplicities changed: {list(kv)}", **tags)
                return
            flt = isfloat or c03.has_float(list(kv))
            for g, e in zip(got, exp):
                if (abs(g - e) > F(1, 10 ** 12) * max(1, abs(e))) if flt else g != e:
                    res.violation("affine", f"{what}: knot {g} expected {e}; result {list(kv)}", **tags)
                    return
            if exact_limits is not None and not (kv[0] == exact_limits[0] and kv[-1] == exact_limits[1]
                                                 and tuple(kv.limits) == exact_limits):
                res.violation("limits", f"{what}: interval {kv.limits!r} is not exactly {exact_limits}", **tags)
                return
            res.nontriv((what,))

        for a in SHIFTS + ((FAR_SHIFT,) if not isfloat else ()):
            kv = lib.KnotVector(list(vals))
            o = lib.outcome(kv.shift, L(a))
            res.state(("shift", name, a))
            if o[0] != "ok":
                res.violation("exception", f"{name}.shift({a}) raised {o[1]}", op="shift")
            else:
                compare(kv, [k + lib.to_frac(L(a)) for k in U], f"{vals}.shift({a})", dict(op="shift"))
        for s in SCALES:
            kv = lib.KnotVector(list(vals))
            o = lib.outcome(kv.scale, L(s))
            res.state(("scale", name, s))
            if o[0] != "ok":
                res.violation("exception", f"{name}.scale({s}) raised {o[1]}", op="scale")
            else:
                compare(kv, [k * lib.to_frac(L(s)) for k in U], f"{vals}.scale({s})", dict(op="scale"))
            for a in SHIFTS:
                kv = lib.KnotVector(list(vals))
                o = lib.outcome(lambda: kv.scale(L(s)).shift(L(a)).normalize())
                res.state(("scale-shift-normalize", name, s, a))
                if o[0] != "ok":
                    res.violation("exception", f"{name} scale/shift/normalize raised {o[1]}: {o[2]}", op="normalize")
                else:
                    compare(kv, [(k - U[0]) / (U[-1] - U[0]) for k in U], f"{vals}.scale({s}).shift({a}).normalize()",
                            dict(op="normalize", cls="float" if isfloat else "exact"), exact_limits=(0, 1))
        kv = lib.KnotVector(list(vals))
        o = lib.outcome(kv.normalize)
        if o[0] != "ok":
            res.violation("exception", f"{name}.normalize() raised {o[1]}: {o[2]}", op="normalize")
        else:
            compare(kv, [(k - U[0]) / (U[-1] - U[0]) for k in U], f"{vals}.normalize()",
                    dict(op="normalize", cls="float" if isfloat else "exact"), exact_limits=(0, 1))
        return res.observe(sorted(res.outcomes.items()))
    if kind == "invariance":
        _, p, U, _, _ = case
        U = list(U)
        n = len(U) - p - 1
        prm = al.params(U, p)
        P = al.generic_points(n)
        # curves over numerically equal float / int knots are evaluated first (history across representations)
        for rep in ("float", "int"):
            lib.outcome(lambda: lib.mk_curve(U, P, None, rep)([lib.conv(u, rep) for u in prm]))
            lib.outcome(lambda: lib.Function(lib.mk_kv(U, rep))[:, p]([lib.conv(u, rep) for u in prm]))
        f0 = lib.Function(lib.mk_kv(U))
        c0 = lib.mk_curve(U, P)
        base = {j: f0[:, j](prm) for j in range(p + 1)}
        cbase = c0(prm)
        for s, a in [(s, a) for s in SCALES for a in SHIFTS[:2]] + [(F(1), FAR_SHIFT), (F(1, 1000), FAR_SHIFT / 1000)]:
            if True:
                res.state((U, s, a))
                kv = lib.mk_kv(U)
                kv.scale(s)
                kv.shift(a)
                V = lib.exact_kv(kv)
                if V != [s * k + a for k in U]:
                    res.violation("affine", f"U={U} scale({s}).shift({a}) = {V}", op="scale_shift")
                    continue
                f1 = lib.Function(kv)
                mapped = [s * u + a for u in prm]
                for j in range(p + 1):
                    res.transition()
                    o = lib.outcome(lambda: f1[:, j](mapped))
                    if o[0] != "ok" or [[lib.to_frac(x) for x in r] for r in o[1]] != [[lib.to_frac(x) for x in r] for r in base[j]]:
                        res.violation("invariance", f"U={U} s={s} a={a} j={j}: basis functions differ after the affine map",
                                      op="basis")
                res.transition()
                c1 = lib.Curve(kv, list(P))
                o = lib.outcome(c1, mapped)
                if o[0] != "ok" or [lib.to_frac(x) for x in o[1]] != [lib.to_frac(x) for x in cbase]:
                    res.violation("invariance", f"U={U} s={s} a={a}: curve values differ after the affine map", op="curve")
                elif not lib.all_exact(o[1]) or not lib.all_exact(cbase):
                    res.violation("invariance", f"U={U} s={s} a={a}: inexact curve values for Fraction data", op="curve_type")
                res.nontriv((U, s, a))
        return res.observe(sorted(res.outcomes.items()))
    raise KeyError(kind)
