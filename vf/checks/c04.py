"""C04 - knot insertion never changes the curve and yields exactly the requested knots."""
import itertools
from fractions import Fraction as F

from ..engine import alphabets as al
from ..engine import lib
from ..ref import bspline as rb
from ..ref import space as sp

ID = "C04"
RULE = ("enum + one chained step: every clamped knot vector of the alphabets x every multiset of size <= 2 (3 thorough) of "
        "candidate nodes {existing interior knots, mid-spans, 0, umin, umax, below, above} classified by the reference "
        "into accept/reject x (L) unit control vectors and generic scalar / 2-D vectors, weights {None, generic, "
        "{1,2,1/3}^n} x {Fraction, float}; accepted insertions are followed by a second insertion (chained). "
        "state = (knot vector, nodes) configuration and every curve snapshot reached; transition = one knot_insert call "
        "compared (knots = multiset union, curve identical as a function / rejected with ValueError and unchanged); "
        "non-trivial = distinct (knot vector, node multiset) pairs that are accepted, or rejected for multiplicity/"
        "interval reasons. Plus live histories: every sequence of 3 (4) operations from {insert, insert existing, insert two, "
        "elevate, set weights, drop weights, set control points, invalid insert, remove last inserted} on ONE curve object "
        "(5 roots), the reference tracking the function after every step")
ASSUMPTIONS = ["linearity in control points: unit vectors decide all control points for a fixed weight vector",
               "degrees/knot positions bounded by the listed alphabets"]


def bounds(tier, seed):
    return {"pmax": 3 if tier == "quick" else 4, "kmax": 2 if tier == "quick" else 3, "multiset": 2 if tier == "quick" else 3,
            "alphabets": al.tier_alphabets(tier, seed)}


def cases(tier, seed):
    b = bounds(tier, seed)
    for K in b["alphabets"]:
        for p, U in al.knotvectors(K, b["pmax"], b["kmax"]):
            k = len(set(U)) - 2
            if tier == "quick":
                if K != "K0" and p > 2:
                    continue  # quick: the seed-selected alphabet is enumerated up to degree 2
                yield (K, p, U, b["multiset"], 5)
                continue
            # thorough: three interior knots and degree 4 on the core alphabet only; node multisets of size 3 up to degree 2
            if (k == 3 or p == 4) and K != "K0":
                continue
            if p == 4 and k > 2:
                continue
            yield (K, p, U, 3 if (p <= 2 and k <= 2 and K == "K0") else 2, 99 if k <= 2 else 6)
    # histories on ONE live object (hidden per-object state is invisible to states rebuilt from snapshots)
    for r in range(len(LIVE_ROOTS)):
        for e in range(len(LIVE_OPS)):
            yield ("live", r, e, 3 if tier == "quick" else 4, 0)


LIVE_ROOTS = [
    ([F(-1), F(-1), F(0), F(2), F(2)], "rational"),
    ([F(-1)] * 3 + [F(1, 3)] + [F(2)] * 3, "rational"),
    ([F(-1)] * 3 + [F(-1, 2), F(1), F(1)] + [F(2)] * 3, "polynomial"),
    ([F(-1), F(0), F(2)], "rational"),
    ([F(0)] * 4 + [F(1)] * 4, "rational"),
]
LIVE_OPS = ("insert_mid", "insert_existing", "insert_two", "elevate", "set_weights", "set_weights_none", "set_ctrlpoints",
            "insert_invalid", "remove_last")


def describe(case):
    if case[0] == "live":
        return {"live_history_root": list(LIVE_ROOTS[case[1]][0]), "kind": LIVE_ROOTS[case[1]][1], "first_operation": LIVE_OPS[case[2]],
                "depth": case[3]}
    return {"alphabet": case[0], "degree": case[1], "knotvector": list(case[2]), "max_nodes": case[3]}


def candidates(U):
    ks = rb.knots_of(U)
    c = [("existing", k) for k in ks[1:-1]] + [("mid", m) for m in al.midspans(U)]
    if ks[0] < 0 < ks[-1] and F(0) not in [x for _, x in c]:
        c.append(("zero", F(0)))
    c += [("umin", ks[0]), ("umax", ks[-1]), ("below", ks[0] - 1), ("above", ks[-1] + F(1, 2))]
    return c


def classify(U, p, nodes):
    """reference decision for curve.knot_insert(nodes)"""
    if any(not (U[0] < x < U[-1]) for x in nodes):
        return "reject"
    V = sorted(list(U) + list(nodes))
    if any(rb.mult(V, x) > p + 1 for x in set(nodes)):
        return "reject"
    return "accept"


def check_insert(res, U, p, P, W, rep, nodes, labels, chain=None, box="list"):
    """one knot_insert call in lockstep; returns the curve after an accepted insertion (or None)"""
    res.transition()
    exact = rep == "frac"
    c = lib.mk_curve(U, P, W, rep)
    before = lib.snap_curve(c)
    dec = classify(U, p, nodes)
    arg = [lib.conv(x, rep) for x in nodes]
    if box == "reversed":
        arg = arg[::-1]
    elif box == "tuple":
        arg = tuple(arg)
    elif box == "array":
        arr = lib.np.empty(len(arg), dtype=object)
        arr[:] = arg
        arg = arr
    out = lib.outcome(c.knot_insert, arg)
    tags = dict(rep=rep, rational=W is not None, nodes="+".join(labels), chained=bool(chain))
    if box != "list":
        tags["box"] = box
    where = f"U={U} P={P} W={W} rep={rep} knot_insert({nodes}) [{'+'.join(labels)}]" + (f" after {chain}" if chain else "")
    res.outcome(f"{dec}:{'ok' if out[0] == 'ok' else out[1]}")
    if dec == "reject":
        if out[0] == "ok":
            res.violation("accepted_invalid", f"{where}: accepted, knots now {list(c.knotvector)}", **tags)
            return None
        if out[1] != "ValueError":
            res.violation("wrong_exception", f"{where}: raised {out[1]} ({out[2]}) instead of ValueError", exc=out[1], **tags)
        if lib.snap_curve(c) != before:
            res.violation("not_atomic", f"{where}: raised {out[1]} and the curve changed: knots {list(c.knotvector)} "
                          f"ctrlpoints {c.ctrlpoints} weights {c.weights}", **tags)
        return None
    if out[0] != "ok":
        res.violation("refused_valid", f"{where}: raised {out[1]}: {out[2]}", exc=out[1], zero=F(0) in nodes, **tags)
        if lib.snap_curve(c) != before:
            res.violation("not_atomic", f"{where}: raised {out[1]} and the curve changed", **tags)
        return None
    V = sorted(list(U) + list(nodes))
    got = lib.exact_kv(c.knotvector)
    if exact:
        if got != V:
            res.violation("knots", f"{where}: knot vector {got} != multiset union {V}", **tags)
            return None
    elif len(got) != len(V) or any(not lib.close(g, v, 1e-12) for g, v in zip(got, V)):
        res.violation("knots", f"{where}: knot vector {got} != multiset union {V}", **tags)
        return None
    if c.degree != p or len(c.ctrlpoints) != len(V) - p - 1:
        res.violation("shape", f"{where}: degree {c.degree}, {len(c.ctrlpoints)} control points", **tags)
        return None
    D0 = rb.denote(U, P, W, p)
    if exact:
        D1 = lib.curve_pw(c)
        if not D1.same(D0):
            res.violation("curve_changed", f"{where}: curve differs: ctrlpoints {c.ctrlpoints} weights {c.weights}", **tags)
            return None
        if not lib.all_exact(c.ctrlpoints) or not lib.all_exact(c.weights):
            res.violation("type", f"{where}: inexact numbers introduced: {c.ctrlpoints} {c.weights}", **tags)
    else:
        for u in al.params(V, p):
            ex = D0.value(u)
            o = lib.outcome(c, float(u))
            if o[0] != "ok" or not lib.close_point(lib.to_point(o[1]), ex):
                res.violation("curve_changed", f"{where}: value at {u}: {o[1:]} vs {ex}", **tags)
                return None
    res.state(lib.snap_curve(c))
    return c


def live_apply(c, op, state):
    """apply one operation to the live curve c; returns (expected knots or None if unchanged, new reference function or None
    if the function must be unchanged, must_raise)"""
    U = lib.exact_kv(c.knotvector)
    p = c.degree
    ks = rb.knots_of(U)
    n = c.npts
    mid = ks[0] + (ks[1] - ks[0]) * F(2, 5)
    if op == "insert_mid":
        state["last"] = [mid]
        return (lambda: c.knot_insert([mid])), sorted(U + [mid]), "same", False
    if op == "insert_existing":
        ex = [k for k in ks[1:-1] if rb.mult(U, k) <= p]
        if not ex:
            return None
        state["last"] = [ex[0]]
        return (lambda: c.knot_insert([ex[0]])), sorted(U + [ex[0]]), "same", False
    if op == "insert_two":
        x = ks[-2] + (ks[-1] - ks[-2]) * F(1, 3)
        state["last"] = [x, mid]
        return (lambda: c.knot_insert([x, mid])), sorted(U + [x, mid]), "same", False
    if op == "elevate":
        if p >= 4:
            return None
        state["last"] = None
        return (lambda: c.degree_increase(1)), sorted(U + ks), "same", False
    if op == "set_weights":
        state["k"] = state.get("k", 0) + 1
        W = [F(1 + (i * (state["k"] + 1)) % 3, 1 + (i + state["k"]) % 2) for i in range(n)]
        state["last"] = None  # the function changes: the last inserted knot is no longer removable
        return (lambda: setattr(c, "weights", W)), U, ("weights", W), False
    if op == "set_weights_none":
        state["last"] = None
        return (lambda: setattr(c, "weights", None)), U, ("weights", None), False
    if op == "set_ctrlpoints":
        state["k"] = state.get("k", 0) + 1
        P = [F((-1) ** i * (i + state["k"]), 1 + (i % 3)) for i in range(n)]
        state["last"] = None
        return (lambda: setattr(c, "ctrlpoints", P)), U, ("points", P), False
    if op == "insert_invalid":
        return (lambda: c.knot_insert([mid, ks[-1] + 1])), U, "same", True
    if op == "remove_last":
        if not state.get("last"):
            return None
        nodes = state["last"]
        state["last"] = None
        V = list(U)
        for x in nodes:
            if x not in V:
                return None
            V.remove(x)
        return (lambda: c.knot_remove(nodes)), V, "same", False
    raise KeyError(op)


def run_live(case, res):
    _, r, first, depth, _ = case
    U0, kind = LIVE_ROOTS[r]
    p0 = rb.degree_of(U0)
    n0 = len(U0) - p0 - 1
    P0 = al.generic_points(n0)
    W0 = al.generic_weights(n0) if kind == "rational" else None
    seqs = [[LIVE_OPS[first]]]
    for _ in range(depth - 1):
        seqs = [sq + [op] for sq in seqs for op in LIVE_OPS]
    for seq in seqs:
        c = lib.mk_curve(U0, P0, W0)
        D = rb.denote(U0, P0, W0, p0)
        state = {}
        done = []
        for op in seq:
            res.transition()
            plan = live_apply(c, op, state)
            if plan is None:
                break
            fn, expU, func, must_raise = plan
            before = lib.snap_curve(c)
            o = lib.outcome(fn)
            done.append(op)
            tags = dict(live=True, op=op, rational=c.weights is not None, step=len(done))
            where = f"live history {done} on one curve built from U={U0} P={P0} W={W0}"
            if must_raise:
                if o[0] == "ok" or o[1] != "ValueError":
                    res.violation("accepted_invalid", f"{where}: gave {o[:2]} instead of ValueError", **tags)
                    break
                if lib.snap_curve(c) != before:
                    res.violation("not_atomic", f"{where}: raised and changed the curve", **tags)
                    break
                continue
            if o[0] != "ok":
                res.violation("refused_valid", f"{where}: raised {o[1]}: {o[2]}", exc=o[1], **tags)
                break
            if func != "same":
                what, val = func
                Uc, Pc, Wc = lib.exact_curve(c)
                if (what == "weights" and Wc != val) or (what == "points" and Pc != val):
                    res.violation("setter", f"{where}: the setter stored {Wc if what == 'weights' else Pc}", **tags)
                    break
                D = rb.denote(Uc, Pc, Wc, c.degree)
                continue
            if lib.exact_kv(c.knotvector) != expU:
                res.violation("knots", f"{where}: knot vector {lib.exact_kv(c.knotvector)} expected {expU}", **tags)
                break
            try:
                same = lib.curve_pw(c).same(D)
            except Exception:  # noqa: BLE001
                same = False
            if not same:
                res.violation("curve_changed", f"{where}: the curve is no longer the same function: ctrlpoints {c.ctrlpoints} weights "
                              f"{c.weights}", **tags)
                break
            res.state(lib.snap_curve(c))
        res.trace()
        res.nontriv((r, tuple(seq)))
        res.outcome("live_history")
    res.observe(sorted(res.outcomes.items()))


def run_case(case, res):
    if case[0] == "live":
        return run_live(case, res)
    K, p, U, msize, unit2 = case
    U = list(U)
    n = len(U) - p - 1
    cand = candidates(U)
    gen, gen2, gw = al.generic_points(n), al.generic_points(n, 2), al.generic_weights(n)
    for size in range(0, msize + 1):
        for combo in itertools.combinations_with_replacement(range(len(cand)), size):
            labels = [cand[i][0] for i in combo]
            nodes = [cand[i][1] for i in combo]
            res.state((U, nodes))
            dec = classify(U, p, nodes)
            if dec == "accept" or any(x in ("umin", "umax", "below", "above") for x in labels) or size:
                res.nontriv((U, nodes))
            # setting weights costs a root search in the library (~60 ms): rational configurations are kept for
            # single-node requests and for the two-node classes where weights matter (balanced ends, same knot twice)
            configs = [(gen, None, "frac")]
            if size <= 1 or labels == ["umin", "umax"] or (nodes[0] == nodes[1] and labels[0] in ("existing", "mid")):
                configs += [(gen, gw, "frac")]
            if size <= 1:
                configs += [(gen2, None, "frac"), (gen, None, "float"), (gen2, gw, "float")]
            if dec == "accept" and size and (size == 1 or n <= unit2):
                configs += [(e, None, "frac") for e in al.unit_vectors(n)]
                if size == 1:
                    if n <= 4:
                        configs += [(e, gw, "frac") for e in al.unit_vectors(n)]
                    configs += [(gen, W, "frac") for W in list(al.small_weight_vectors(n, 3))[1:]]
                    # weights only matter by their ratios: the generic weights on a scale of 1e-10, and weights that differ
                    # from one another by 1e-10 only (all within any absolute tolerance of each other, but not equal)
                    configs += [(gen, [w * F(1, 10 ** 10) for w in gw], "frac"),
                                (gen, [1 + F(i % 2 + i % 3, 10 ** 10) for i in range(n)], "frac")]
            if size:
                # the same request in other containers (tuple, numpy object array) and with the nodes in decreasing order
                for box in ("tuple", "array") + (("reversed",) if size > 1 else ()):
                    check_insert(res, U, p, gen, None, "frac", nodes, labels, box=box)
            for P, W, rep in configs:
                c = check_insert(res, U, p, P, W, rep, nodes, labels)
                # chained second insertion from the non-initial state (generic configurations, first call single node)
                if c is not None and size == 1 and rep == "frac" and P is gen and (W is None or W is gw):
                    U1, P1, W1 = lib.exact_curve(c)
                    for lab2, x2 in candidates(U1):
                        if W1 is not None and lab2 in ("umin", "umax", "below"):
                            continue  # rational chain: one representative per rejected class
                        check_insert(res, U1, p, P1, W1, "frac", [x2], [lab2], chain=f"knot_insert({nodes})")
                    res.trace()
    res.observe(sorted(res.outcomes.items()))
