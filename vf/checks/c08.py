"""C08 - curve arithmetic is pointwise."""
import itertools
from fractions import Fraction as F

from ..engine import alphabets as al
from ..engine import lib
from ..ref import bspline as rb
from ..ref import poly

ID = "C08"
RULE = ("enum: ordered pairs (A, B) of knot vectors on the same interval, degrees (p,q) in {0..2}^2 ({0..3}^2), each with <= 1 "
        "interior knot of every multiplicity (so products have up to two interior knots of different smoothness; both "
        "with 2 interior knots in a reduced block) x operators + - * / (and @ for 2-D points) on generic control vectors, "
        "on every unit pair (e_i, e_j) for small sizes (bilinearity decides all control points), polynomial and rational "
        "operands; unary minus, scalars {0, 1, -2, 3/2} in s+A, A+s, s-A, A-s, s*A, A*s, A/s, s/A, 2x2 matrices in M@A, "
        "A@M; different intervals (ValueError). Oracle: the result, read back as an exact piecewise rational function, "
        "equals the pointwise combination of the operands on every span; operands unchanged; exact number types. "
        "state = (A, B, operator); transition = one operator application compared; non-trivial = distinct (A, B, op) with "
        "different knot vectors or degrees")
ASSUMPTIONS = ["bilinearity of + - * @ in the control points of polynomial operands", "division only by curves without zeros "
               "(positive control points)", "degrees/knot positions bounded by the alphabets"]
SCALARS = (F(0), F(1), F(-2), F(3, 2))


def bounds(tier, seed):
    q = tier == "quick"
    return {"pmax": 2 if q else 3, "kmax": 1, "deep_pmax": 1 if q else 2, "deep_kmax": 2, "unit_pairs_max": 6 if q else 30, "quick": q,
            "alphabets": ["K0"] if q else al.tier_alphabets(tier, seed)}


def vectors(K, b):
    pmax, dpmax = b["pmax"], b["deep_pmax"]
    if K != "K0" and not b["quick"]:
        pmax, dpmax = 2, 1  # thorough: degree 3 (wide) and degree 2 (deep) partners on the core alphabet only
    vs = [(p, list(U)) for p, U in al.knotvectors(K, pmax, b["kmax"])]
    deep = [(p, list(U)) for p, U in al.knotvectors(K, dpmax, b["deep_kmax"], kmin=2)]
    return vs, deep


def cases(tier, seed):
    b = bounds(tier, seed)
    for K in b["alphabets"]:
        vs, deep = vectors(K, b)
        for p, U in vs:
            yield ("pairs", K, p, tuple(U), tier)
        for p, U in deep:
            yield ("deep", K, p, tuple(U), tier)
        for p, U in vs + deep:
            yield ("scalars", K, p, tuple(U), tier)


def describe(case):
    return {"kind": case[0], "alphabet": case[1], "degree": case[2], "A_knotvector": list(case[3])}


def cost(case):
    return {"pairs": 30, "deep": 20, "scalars": 1}[case[0]] * len(case[3])


def positive_points(n):
    return [F(x) for x in (2, 3, 5, 7, 11, 13, 17, 19, 23)[:n]]


def int_array_curve(U, P):
    """Fraction knots, control points as one integer-dtype numpy array"""
    return lib.Curve([F(k) for k in U], lib.np.array([[int(c) for c in pt] if isinstance(pt, tuple) else int(pt) for pt in P], dtype="int64"))


def check_binary(res, op, UA, PA, WA, UB, PB, WB, tag):
    """A op B in lockstep with the reference"""
    res.transition()
    pa, pb = rb.degree_of(UA), rb.degree_of(UB)
    if tag.get("data") == "int_arrays":
        A, B = int_array_curve(UA, PA), int_array_curve(UB, PB)
    else:
        A, B = lib.mk_curve(UA, PA, WA), lib.mk_curve(UB, PB, WB)
    sa, sb = lib.snap_curve(A), lib.snap_curve(B)
    if tag.get("data") == "generic":
        # the same operation on float (and int-knot) curves with numerically equal knots runs FIRST: the exact result must
        # not depend on what was computed before for another number type (value-keyed tables). Once per pair of knot vectors
        # and operation (the generic data come first for every pair).
        for rep in ("float", "int"):
            Af, Bf = lib.mk_curve(UA, PA, WA, rep), lib.mk_curve(UB, PB, WB, rep)
            lib.outcome({"+": lambda: Af + Bf, "-": lambda: Af - Bf, "*": lambda: Af * Bf, "/": lambda: Af / Bf, "@": lambda: Af @ Bf}[op])
    fn = {"+": lambda: A + B, "-": lambda: A - B, "*": lambda: A * B, "/": lambda: A / B, "@": lambda: A @ B}[op]
    o = lib.outcome(fn)
    tags = dict(op=op, rational=("A" if WA is not None else "") + ("B" if WB is not None else "") or "none",
                degrees="equal" if pa == pb else "different", interior=len(set(UA) | set(UB)) - 2, **tag)
    where = f"A=({UA},{PA},{WA}) {op} B=({UB},{PB},{WB})"
    res.state((tuple(UA), lib.tagdeep(PA), lib.tagdeep(WA), tuple(UB), lib.tagdeep(PB), lib.tagdeep(WB), op))
    res.outcome(f"{op}:{'ok' if o[0] == 'ok' else o[1]}")
    if UA != UB:
        res.nontriv((tuple(UA), tuple(UB), op, WA is not None, WB is not None))
    if lib.snap_curve(A) != sa or lib.snap_curve(B) != sb:
        res.violation("operand_modified", f"{where}: an operand changed", **tags)
    if o[0] != "ok":
        res.violation("exception", f"{where}: raised {o[1]}: {o[2]}", exc=o[1], **tags)
        return
    C = o[1]
    DA, DB = rb.denote(UA, PA, WA, pa), rb.denote(UB, PB, WB, pb)
    if op == "+":
        E = DA.add(DB)
    elif op == "-":
        E = DA.add(DB, -1)
    elif op == "*":
        E = DA.mul(DB)
    elif op == "@":
        E = DA.dot(DB)
    else:
        E = DA.div(DB)
    try:
        DC = lib.curve_pw(C)
    except Exception as e:  # noqa: BLE001
        res.violation("shape", f"{where}: result unreadable: {e!r}", **tags)
        return
    if DC.dim != E.dim or not DC.same(E):
        res.violation("not_pointwise", f"{where}: result knots {list(C.knotvector)} ctrlpoints {C.ctrlpoints} weights {C.weights} "
                      f"is not the pointwise {op}", **tags)
        return
    if not lib.all_exact(C.ctrlpoints) or not lib.all_exact(C.weights) or not lib.all_exact(list(C.knotvector)):
        res.violation("type", f"{where}: inexact numbers in the result: {C.ctrlpoints} {C.weights}", **tags)
    _alias_probe(res, C, ((A, sa), (B, sb)), where, tags)


def run_case(case, res):
    kind, K, p, UA, tier = case
    UA = list(UA)
    b = bounds(tier, 0)
    vs, deep = vectors(K, b)
    nA = len(UA) - p - 1
    if kind == "scalars":
        return run_scalars(res, UA, p, nA)
    partners = vs if kind == "pairs" else deep + [v for v in vs if len(set(v[1])) <= 3][:6]
    PA = al.generic_points(nA)
    for q, UB in partners:
        nB = len(UB) - q - 1
        PB = al.generic_points(nB, None, 1)
        PBpos = positive_points(nB)
        quick = b["quick"]
        for op in ("+", "*") if (quick and kind == "deep") else ("+", "-", "*"):
            check_binary(res, op, UA, PA, None, UB, PB, None, dict(data="generic"))
        if not (quick and kind == "deep"):
            check_binary(res, "/", UA, PA, None, UB, PBpos, None, dict(data="generic"))
        if kind == "pairs" and nA * nB <= b["unit_pairs_max"]:
            for i, j in itertools.product(range(nA), range(nB)):
                ei = [F(int(k == i)) for k in range(nA)]
                ej = [F(int(k == j)) for k in range(nB)]
                check_binary(res, "*", UA, ei, None, UB, ej, None, dict(data="unit_pair"))
            for i in range(nA):
                ei = [F(int(k == i)) for k in range(nA)]
                check_binary(res, "+", UA, ei, None, UB, [F(0)] * nB, None, dict(data="unit_pair"))
        # 2-D points: + and @ (dot product), and scalar * vector
        PA2, PB2 = al.generic_points(nA, 2), al.generic_points(nB, 2, 1)
        if p + q <= 2 or kind == "deep":
            check_binary(res, "+", UA, PA2, None, UB, PB2, None, dict(data="2d"))
            check_binary(res, "@", UA, PA2, None, UB, PB2, None, dict(data="2d"))
            check_binary(res, "*", UA, PA, None, UB, PB2, None, dict(data="scalar_times_2d"))
            # integer-dtype numpy arrays as control points (no Fractions in the data)
            for op in ("+", "@", "*"):
                if op == "*":
                    check_binary(res, op, UA, PA, None, UB, PB, None, dict(data="int_arrays"))
                else:
                    check_binary(res, op, UA, PA2, None, UB, PB2, None, dict(data="int_arrays"))
            check_binary(res, "*", UA, PA2, None, UB, PB, None, dict(data="2d_times_scalar"))
            check_binary(res, "/", UA, PA2, None, UB, PBpos, None, dict(data="2d_over_scalar"))
        # rational operands
        if p <= 1 and q <= 1 and not (quick and (kind == "deep" or p + q == 2 and len(set(UA) | set(UB)) > 3)):
            WA, WB = al.generic_weights(nA), list(reversed(al.generic_weights(nB)))
            for op in ("+", "*", "/"):
                PBx = PBpos if op == "/" else PB
                check_binary(res, op, UA, PA, WA, UB, PBx, WB, dict(data="generic"))
            check_binary(res, "-", UA, PA, WA, UB, PB, None, dict(data="generic"))
            check_binary(res, "*", UA, PA, None, UB, PB, WB, dict(data="generic"))
    # different intervals
    UB = [k + 1 for k in UA]
    A, B = lib.mk_curve(UA, PA), lib.mk_curve(UB, PA)
    for op, fn in (("+", lambda: A + B), ("-", lambda: A - B), ("*", lambda: A * B), ("/", lambda: A / B)):
        res.transition()
        o = lib.outcome(fn)
        if o[0] == "ok" or o[1] != "ValueError":
            res.violation("different_intervals", f"A on [{UA[0]},{UA[-1]}] {op} B on [{UB[0]},{UB[-1]}] gave {o[:2]} instead of "
                          "ValueError", op=op)
        res.outcome("different_intervals")
    res.observe(sorted(res.outcomes.items()))


def run_scalars(res, UA, p, nA):
    PA = al.generic_points(nA)
    PApos = positive_points(nA)
    PA2 = al.generic_points(nA, 2)
    M = lib.np.array([[F(2), F(-1)], [F(1, 2), F(3)]], dtype=object)
    Mx = [[F(2), F(-1)], [F(1, 2), F(3)]]
    for W in (None, al.generic_weights(nA)):
        D = rb.denote(UA, PA, W, p)
        Dpos = rb.denote(UA, PApos, W, p)
        D2 = rb.denote(UA, PA2, W, p)
        ops = []
        for s in SCALARS:
            ops += [(f"{s}+A", lambda A, s=s: s + A, D.map_affine_coeff(1, s), PA), (f"A+{s}", lambda A, s=s: A + s, D.map_affine_coeff(1, s), PA),
                    (f"{s}-A", lambda A, s=s: s - A, D.map_affine_coeff(-1, s), PA), (f"A-{s}", lambda A, s=s: A - s, D.map_affine_coeff(1, -s), PA),
                    (f"{s}*A", lambda A, s=s: s * A, D.map_affine_coeff(s), PA), (f"A*{s}", lambda A, s=s: A * s, D.map_affine_coeff(s), PA)]
            if s != 0:
                ops.append((f"A/{s}", lambda A, s=s: A / s, D.map_affine_coeff(1 / s), PA))
            const = rb.PW([(UA[0], UA[-1], (poly.const(s),), poly.ONE)], True)
            ops.append((f"{s}/A", lambda A, s=s: s / A, const.div(Dpos), PApos))
        ops.append(("-A", lambda A: -A, D.neg(), PA))
        for name, fn, E, P in ops:
            one_unary(res, UA, p, P, W, name, fn, E)
        # 2-D points: matrix products and scalar ops
        def matl(A):
            # the matrix is given as nested tuples: a numpy array on the left would be dispatched by numpy itself
            return tuple(tuple(r) for r in Mx) @ A

        def matr(A):
            return A @ M

        EL = _linear_map(D2, Mx, left=True)
        ER = _linear_map(D2, Mx, left=False)
        one_unary(res, UA, p, PA2, W, "M@A", matl, EL)
        one_unary(res, UA, p, PA2, W, "A@M", matr, ER)
        one_unary(res, UA, p, PA2, W, "-A(2d)", lambda A: -A, D2.neg())
        one_unary(res, UA, p, PA2, W, "3/2*A(2d)", lambda A: F(3, 2) * A, D2.map_affine_coeff(F(3, 2)))
    res.observe(sorted(res.outcomes.items()))


def _linear_map(D, M, left):
    out = []
    for x, y, nums, den in D.pieces:
        if left:   # M @ point
            nn = tuple(poly.add(poly.scale(nums[0], M[r][0]), poly.scale(nums[1], M[r][1])) for r in range(2))
        else:      # point @ M
            nn = tuple(poly.add(poly.scale(nums[0], M[0][c]), poly.scale(nums[1], M[1][c])) for c in range(2))
        out.append((x, y, nn, den))
    return rb.PW(out, False)


def one_unary(res, UA, p, P, W, name, fn, E):
    res.transition()
    A = lib.mk_curve(UA, P, W)
    sa = lib.snap_curve(A)
    o = lib.outcome(fn, A)
    tags = dict(op=_opclass(name),
                rational="A" if W is not None else "none")
    where = f"{name} with A=({UA},{P},{W})"
    res.state((tuple(UA), lib.tagdeep(P), lib.tagdeep(W), name))
    res.nontriv((tuple(UA), name, W is not None))
    res.outcome(f"{_opclass(name)}:{'ok' if o[0] == 'ok' else o[1]}")
    if lib.snap_curve(A) != sa:
        res.violation("operand_modified", f"{where}: the operand changed", **tags)
    if o[0] != "ok":
        res.violation("exception", f"{where}: raised {o[1]}: {o[2]}", exc=o[1], **tags)
        return
    try:
        DC = lib.curve_pw(o[1])
    except Exception as e:  # noqa: BLE001
        res.violation("shape", f"{where}: result unreadable {e!r}", **tags)
        return
    if DC.dim != E.dim or not DC.same(E):
        res.violation("not_pointwise", f"{where}: result ctrlpoints {o[1].ctrlpoints} weights {o[1].weights} is not pointwise", **tags)
        return
    if not lib.all_exact(o[1].ctrlpoints) or not lib.all_exact(o[1].weights):
        res.violation("type", f"{where}: inexact numbers in the result", **tags)
    _alias_probe(res, o[1], ((A, sa),), where, tags)


def _alias_probe(res, C, operands, where, tags):
    """the result is a curve of its own: moving its KnotVector object in place must not move an operand"""
    if not isinstance(C, lib.Curve) or any(C is x for x, _ in operands):
        return
    try:
        C.knotvector.shift(1)
    except Exception:  # noqa: BLE001
        return
    if any(lib.snap_curve(x) != sx for x, sx in operands):
        res.violation("operand_modified", f"{where}: shifting the result's knot vector in place changed an operand", aliased=True, **tags)


def _opclass(name):
    for pat in ("M@A", "A@M", "-A", "*A(2d)"):
        if pat in name:
            return pat
    if name.endswith("/A"):
        return "s/A"
    if name.startswith("A/"):
        return "A/s"
    for c in "+-*":
        if name.endswith(c + "A"):
            return "s" + c + "A"
        if name.startswith("A" + c):
            return "A" + c + "s"
    return name
