"""C09 - Derivate(curve) is the derivative of the curve."""
from fractions import Fraction as F

from ..engine import alphabets as al
from ..engine import lib
from ..ref import bspline as rb

ID = "C09"
RULE = ("enum: every knot vector of the alphabets (degree 0..3(4), <= 2(3) interior knots, every multiplicity pattern incl. C0 "
        "knots and full-multiplicity discontinuities, Bezier) x polynomial curves on every unit control vector (linearity), "
        "generic scalar and 2-D points, Fraction and float data; rational curves (generic and small weight alphabets) on a "
        "reduced block. Oracle: D = Derivate(C) lives on the same interval and D(u) equals the exact derivative of the "
        "piece of C containing u (quotient rule for rational pieces) at p+2 points interior to every span (1e-9 relative: "
        "the library differentiates in float64), and identically as piecewise functions when D carries exact numbers; "
        "degree 0 gives the zero curve; C unchanged. state = (curve configuration); transition = one Derivate call plus "
        "its evaluations; non-trivial = distinct configurations of degree >= 1")
ASSUMPTIONS = ["a polynomial of degree <= 2p that agrees with the exact derivative at p+2 points of a span to 1e-9 is taken as equal "
               "(float output)", "degrees/knot positions bounded by the alphabets"]


def bounds(tier, seed):
    q = tier == "quick"
    return {"pmax": 3 if q else 4, "kmax": 2 if q else 3, "rational": {"pmax": 2, "kmax": 2, "deep_pmax": 2 if q else 3},
            "alphabets": al.tier_alphabets(tier, seed)}


def cases(tier, seed):
    b = bounds(tier, seed)
    for K in b["alphabets"]:
        for p, U in al.knotvectors(K, b["pmax"], b["kmax"]):
            if tier == "thorough" and p == 4 and len(set(U)) > 4:
                continue
            k = len(set(U)) - 2
            rat = (p <= b["rational"]["pmax"] and k <= b["rational"]["kmax"]) or (p <= b["rational"]["deep_pmax"] and k <= 2)
            if K != "K0" and tier == "quick":
                rat = rat and p <= 1
            yield (K, p, U, rat)
    for c in far_cases(tier):
        yield c


def far_cases(tier):
    for p, U in al.knotvectors("K6", 3, 1 if tier == "quick" else 2, pmin=1):
        yield ("K6", p, U, False)


def describe(case):
    return {"alphabet": case[0], "degree": case[1], "knotvector": list(case[2]), "rational_block": case[3]}


def cost(case):
    return len(case[2]) * (20 if case[3] else 1)


def interior_points(U, p):
    out = []
    ks = rb.knots_of(U)
    for a, b in zip(ks[:-1], ks[1:]):
        out += [a + (b - a) * F(t + 1, p + 3) for t in range(p + 2)]
    return out


def check(res, U, p, P, W, rep):
    res.transition()
    c = lib.mk_curve(U, P, W, rep)
    before = lib.snap_curve(c)
    o = lib.outcome(lib.Derivate, c)
    disc = any(rb.mult(U, k) == p + 1 for k in rb.knots_of(U)[1:-1])
    tags = dict(rational=W is not None, rep=rep, degree0=p == 0, discontinuous=disc, bezier=len(U) == 2 * (p + 1))
    where = f"Derivate of U={U} P={P} W={W} rep={rep}"
    res.state((tuple(U), lib.tagdeep(P), lib.tagdeep(W), rep))
    res.outcome(("rational" if W is not None else "polynomial") + ":" + ("ok" if o[0] == "ok" else o[1]))
    if p >= 1:
        res.nontriv((tuple(U), lib.tagdeep(P), lib.tagdeep(W), rep))
    if lib.snap_curve(c) != before:
        res.violation("operand_modified", f"{where}: the curve changed", **tags)
    if o[0] != "ok":
        res.violation("exception", f"{where}: raised {o[1]}: {o[2]}", exc=o[1], **tags)
        return
    D = o[1]
    if not isinstance(D, lib.Curve):
        res.violation("shape", f"{where}: returned {type(D).__name__}", **tags)
        return
    lim = [lib.to_frac(x) for x in D.knotvector.limits]
    ok_lim = (lim == [U[0], U[-1]]) if rep in ("frac", "int", "npint") else all(lib.close(g, e, 1e-12) for g, e in zip(lim, [U[0], U[-1]]))
    if not ok_lim:
        res.violation("interval", f"{where}: derivative lives on {D.knotvector.limits}", **tags)
        return
    E = rb.denote(U, P, W, p).derivative()
    if rep == "frac" and lib.all_exact(D.ctrlpoints) and lib.all_exact(D.weights) and lib.all_exact(list(D.knotvector)):
        try:
            DD = lib.curve_pw(D)
            if DD.dim == E.dim and DD.same(E):
                res.outcome("identical_as_functions")
                return
        except Exception:  # noqa: BLE001
            pass
    # also at the interior knots where C is differentiable (multiplicity <= p-1: C is C^1 there, both pieces agree)
    smooth_knots = [k for k in rb.knots_of(U)[1:-1] if rb.mult(U, k) <= p - 1]
    for u in interior_points(U, p) + smooth_knots:
        res.transition()
        ov = lib.outcome(D, lib.conv(u, rep))
        ex = E.value(u)
        if ov[0] != "ok":
            res.violation("exception", f"{where}: D({u}) raised {ov[1]}: {ov[2]}", exc=ov[1], phase="eval", **tags)
            return
        try:
            got = lib.to_point(ov[1])
        except Exception:  # noqa: BLE001
            res.violation("shape", f"{where}: D({u}) = {ov[1]!r}", **tags)
            return
        if isinstance(got, tuple) != isinstance(ex, tuple) or not lib.close_point(got, ex, 1e-9):
            res.violation("not_derivative", f"{where}: D({u}) = {ov[1]!r}, exact derivative {ex}; D knots {list(D.knotvector)} "
                          f"ctrlpoints {D.ctrlpoints}", **tags)
            return
    res.outcome("pointwise_equal")


def run_case(case, res):
    K, p, U, rat = case
    U = list(U)
    n = len(U) - p - 1
    gen, gen2 = al.generic_points(n), al.generic_points(n, 2)
    for e in al.unit_vectors(n):
        check(res, U, p, e, None, "frac")
    if K == "K6":
        # knots of magnitude 1e9 with unit spacing: exact data only (the differences of the exact knots are what matters)
        check(res, U, p, gen, None, "frac")
        check(res, U, p, gen2, None, "frac")
        check(res, U, p, gen, al.generic_weights(n), "frac") if p <= 2 else None
        return res.observe(sorted(res.outcomes.items()))
    for P, rep in ((gen, "frac"), (gen2, "frac"), (gen, "float"), (gen2, "float"), (gen, "npfloat")):
        check(res, U, p, P, None, rep)
    if all(k.denominator == 1 for k in U):
        check(res, U, p, gen, None, "int")  # integer knots and integer control points
        check(res, U, p, gen, None, "npint")  # numpy.int64 knots
        for e in al.unit_vectors(n):
            check(res, U, p, e, None, "int")
    if rat:
        gw = al.generic_weights(n)
        check(res, U, p, gen, gw, "frac")
        check(res, U, p, gen, [F(1)] * n, "frac")
        check(res, U, p, gen2, gw, "float")
        if n <= 3:
            for W in list(al.small_weight_vectors(n, 3))[1::3]:
                check(res, U, p, gen, W, "frac")
    res.observe(sorted(res.outcomes.items()))
