"""C19 - projection returns nearest-point parameters."""
import itertools
import math
from fractions import Fraction as F

from ..engine import lib
from ..engine.env import EvalHorizon, Watchdog
from ..ref import bspline as rb
from ..ref import geom

ID = "C19"
RULE = ("enum with a horizon: polylines (degree 1) with 1-3 (4) segments and vertices on the integer grid {0..3}^2 - every "
        "one-segment polyline, strided deterministic subsets of the two- and three-segment ones, uniform and non-uniform "
        "knots; polylines with a repeated vertex (zero-length segment) form a separately tagged sub-alphabet - x every "
        "query point of the half-integer grid {-1,-1/2,..,4}^2 (on the curve, on vertices, equidistant, beyond the ends); "
        "a fixed list of quadratic/cubic Beziers, two-span splines and rational arcs x a 7x7 grid plus points C(t) on the "
        "curve. Oracle: terminates (200000 evaluations / 5 s), returns a non-empty sorted tuple inside [umin, umax] whose "
        "members are at the same distance (1e-6); for polylines that distance is the exact point-polyline distance from the "
        "rational reference (global minimality); a point on the curve projects at distance <= 1e-6; every returned interior "
        "non-knot parameter is a stationary point of the distance; curve unchanged. state = (curve, point); transition = "
        "one projection; non-trivial = distinct (curve, point) pairs whose nearest point is not a curve end")
ASSUMPTIONS = ["global minimality is demanded only for polylines (piecewise linear problem), as stated", "float data; distances at "
               "1e-6 (absolute, coordinates <= 4), exact distance at 1e-9 relative"]
GRID = [F(i, 2) for i in range(-2, 9)]
WATCHDOG_S = 5.0


def bounds(tier, seed):
    q = tier == "quick"
    return {"two_segment": 400 if q else 1600, "three_segment": 200 if q else 1000, "four_segment": 0 if q else 100,
            "degenerate": 30 if q else 120}


def vertices_lists(nseg, count, degenerate=False):
    pts = [(x, y) for x in range(4) for y in range(4)]
    out = []
    allc = itertools.product(pts, repeat=nseg + 1)
    k = 0
    stride = {1: 1, 2: 7, 3: 211, 4: 9973}[nseg]
    for combo in allc:
        distinct = all(combo[i] != combo[i + 1] for i in range(nseg))
        if degenerate == distinct:
            continue
        if k % stride == 0:
            out.append(combo)
            if len(out) >= count:
                break
        k += 1
    return out


def knots_for(nseg, variant):
    if variant == 0:
        return [F(i) for i in range(nseg + 1)]
    if variant == 2:
        return [F(100000 * i) for i in range(nseg + 1)]   # slow parametrisation: |C'| ~ 1e-5
    if variant == 3:
        return [F(i, 1000) for i in range(nseg + 1)]      # fast parametrisation: |C'| ~ 1e3
    return [F(0), F(1, 2), F(2), F(3), F(7)][:nseg + 1]


def all_polylines(b):
    out = []
    for v in vertices_lists(1, 10 ** 6):
        out.append((v, 0, False))
    for v in vertices_lists(2, b["two_segment"]):
        out.append((v, 1, False))
    for v in vertices_lists(3, b["three_segment"]):
        out.append((v, 1, False))
    for v in vertices_lists(4, b["four_segment"]):
        out.append((v, 0, False))
    for i, v in enumerate(vertices_lists(1, 10 ** 6)[::6] + vertices_lists(2, b["two_segment"])[::12]):
        out.append((v, 2 + i % 2, False))
    for v in vertices_lists(2, b["degenerate"] // 2, True) + vertices_lists(3, b["degenerate"] // 2, True):
        out.append((v, 0, True))
    # polylines in space (vertices on {0,1,2}^3)
    p3 = [(x, y, z) for x in range(3) for y in range(3) for z in range(3)]
    k = 0
    for combo in itertools.product(p3[::2], repeat=3):
        if combo[0] != combo[1] and combo[1] != combo[2]:
            if k % 53 == 0:
                out.append((combo, 1, False))
            k += 1
    return out


def cases(tier, seed):
    b = bounds(tier, seed)
    for i, (v, kv, deg) in enumerate(all_polylines(b)):
        yield ("polyline", v, kv, deg)
    for i in range(len(FIXED)):
        yield ("fixed", i, 0, False)


def describe(case):
    if case[0] == "polyline":
        return {"polyline_vertices": case[1], "knots": [str(k) for k in knots_for(len(case[1]) - 1, case[2])], "zero_length_segment": case[3]}
    return {"fixed_curve": FIXED[case[1]][0]}


def cost(case):
    return len(case[1]) if case[0] == "polyline" else 20


S2 = math.sqrt(2) / 2
FIXED = [
    ("parabola", [0.0] * 3 + [1.0] * 3, [(0, 0), (1, 2), (2, 0)], None),
    ("cubic S", [0.0] * 4 + [1.0] * 4, [(0, 0), (1, 3), (2, -3), (3, 0)], None),
    ("two-span quadratic", [0.0] * 3 + [0.4] + [1.0] * 3, [(0, 0), (1, 2), (2, 2), (3, 0)], None),
    ("two-span C0 quadratic", [0.0] * 3 + [0.5, 0.5] + [2.0] * 3, [(0, 0), (1, 2), (2, 0), (3, 2), (3, 3)], None),
    ("quarter circle", [0.0] * 3 + [1.0] * 3, [(1, 0), (1, 1), (0, 1)], [1, S2, 1]),
    ("half circle", [0.0] * 3 + [0.5, 0.5] + [1.0] * 3, [(1, 0), (1, 1), (0, 1), (-1, 1), (-1, 0)], [1, S2, 1, S2, 1]),
    ("degree-elevated segment (clean() can reduce it)", [0.0] * 3 + [1.0] * 3, [(0, 0), (1, 0.5), (2, 1)], None),
    ("parabola with constant weights (clean() can drop them)", [0.0] * 3 + [1.0] * 3, [(0, 0), (1, 2), (2, 0)], [2, 2, 2]),
    ("cubic spline 3 spans", [0.0] * 4 + [1.0, 2.5] + [3.0] * 4, [(0, 0), (1, 2), (2, -1), (3, 3), (0, 3), (1, 1)], None),
]


def project(res, c, P, where, tags):
    snap = lib.snap_curve(c)
    try:
        with EvalHorizon(200000), Watchdog(WATCHDOG_S):
            o = lib.outcome(lib.Projection.point_on_curve, tuple(float(x) for x in P), c)
    except lib.HorizonExceeded:
        res.violation("nontermination", f"{where}: no result within 200000 curve evaluations / 5 s", **tags)
        return None
    if lib.snap_curve(c) != snap:
        res.violation("operand_modified", f"{where}: the curve changed", **tags)
    if o[0] != "ok":
        res.violation("exception", f"{where}: raised {o[1]}: {o[2]}", exc=o[1], **tags)
        return None
    try:
        ts = [float(t) for t in o[1]]
    except Exception:  # noqa: BLE001
        res.violation("shape", f"{where}: returned {o[1]!r}", **tags)
        return None
    umin, umax = (float(x) for x in c.knotvector.limits)
    if not ts:
        res.violation("empty", f"{where}: returned an empty tuple", **tags)
        return None
    if any(math.isnan(t) for t in ts) or any(not (umin <= t <= umax) for t in ts):
        res.violation("outside_interval", f"{where}: parameters {ts} outside [{umin}, {umax}]", **tags)
        return None
    if any(ts[i] > ts[i + 1] for i in range(len(ts) - 1)):
        res.violation("not_sorted", f"{where}: parameters {ts} are not sorted", **tags)
    ds = [math.dist([float(x) for x in c(t)], [float(x) for x in P]) for t in ts]
    if max(ds) - min(ds) > 1e-6:
        res.violation("unequal_distances", f"{where}: returned parameters {ts} at distances {ds}", **tags)
        return None
    return ts, ds


def run_case(case, res):
    if case[0] == "fixed":
        return run_fixed(case, res)
    _, verts, kvar, degenerate = case
    nseg = len(verts) - 1
    knots = knots_for(nseg, kvar)
    U = [float(knots[0])] + [float(k) for k in knots] + [float(knots[-1])]
    c = lib.Curve(U, lib.np.array(verts, dtype="float64"))
    dim = len(verts[0])
    points = list(itertools.product(GRID, repeat=2)) if dim == 2 else list(itertools.product(GRID[::2], repeat=3))
    if dim == 3:
        pass
    elif degenerate:
        points = points[::5]  # zero-length segments: a reduced point set
    else:
        # near ties: around every grid point that is exactly equidistant from two different places of the polyline, the four
        # axis perturbations by 2e-6, 1e-5 and 4e-5 (the two candidates then differ by more than the 1e-6 the statement
        # allows, but by little); far ties: the same construction scaled away from the curve along the tie direction
        extra = []
        for P in points:
            best, prm = geom.point_polyline_sqdist(P, knots, verts)
            if len(prm) >= 2 and best > 0:
                for eps in (F(2, 10 ** 6), F(1, 10 ** 5), F(4, 10 ** 5)):
                    for dx, dy in ((1, 0), (-1, 0), (0, 1), (0, -1)):
                        extra.append((P[0] + eps * dx, P[1] + eps * dy) + tuple(P[2:]))
        points = points + extra[:96]
        # points ON the curve a small distance (1/2000 and 1/10000 of a segment) from each vertex: the vertex (a knot) is then
        # a candidate whose distance differs from the true minimum 0 by more than 1e-6 but by very little
        for i in range(len(verts) - 1):
            a_, b_ = verts[i], verts[i + 1]
            for t in (F(1, 2000), F(1, 10000)):
                for s_ in (t, 1 - t):
                    points.append(tuple(x + s_ * (y - x) for x, y in zip(a_, b_)))
    for P in points:
        res.transition()
        res.state((verts, kvar, P))
        best, prm = geom.point_polyline_sqdist(P, knots, verts)
        tags = dict(curve="polyline", segments=nseg, zero_length_segment=degenerate, on_curve=best == 0,
                    near_tie=any(F(c).denominator > 2 for c in P), dim=dim)
        where = f"polyline {verts} knots {[str(k) for k in knots]} point {tuple(str(x) for x in P)}"
        if any(knots[0] < u < knots[-1] for u in prm):
            res.nontriv((verts, kvar, P))
        r = project(res, c, P, where, tags)
        if r is None:
            res.outcome("failed")
            continue
        ts, ds = r
        exact = math.sqrt(float(best))
        # the returned parameters may differ in distance by up to 1e-6 (checked above); the smallest must be the minimum
        if abs(min(ds) - exact) > 1e-9 * max(1.0, exact) + 1e-12:
            res.violation("not_nearest", f"{where}: returned {ts} at distance {min(ds)}, the minimal distance is {exact} "
                          f"(attained at {[float(u) for u in prm]})", **tags)
            res.outcome("not_nearest")
            continue
        res.outcome("nearest")
    res.observe(sorted(res.outcomes.items()))


def run_fixed(case, res):
    name, U, P, W = FIXED[case[1]]
    c = lib.Curve(U, lib.np.array(P, dtype="float64"), W)
    Ue = [lib.to_frac(k) for k in U]
    p = rb.degree_of(Ue)
    D = rb.denote(Ue, [tuple(lib.to_frac(float(x)) for x in pt) for pt in P], None if W is None else [lib.to_frac(float(w)) for w in W], p)
    dD = D.derivative()
    ks = [float(k) for k in rb.knots_of(Ue)]
    grid = [F(i, 2) - 1 for i in range(7)]
    queries = [(tuple(q), False) for q in itertools.product(grid, repeat=2)]
    for i in range(9):
        t = Ue[0] + (Ue[-1] - Ue[0]) * F(i, 8)
        queries.append((tuple(D.value(t)), True))
    for Q, on_curve in queries:
        res.transition()
        res.state((name, Q))
        res.nontriv((name, Q))
        tags = dict(curve="fixed", on_curve=on_curve, rational=W is not None)
        where = f"{name}: point {tuple(float(x) for x in Q)}"
        r = project(res, c, Q, where, tags)
        if r is None:
            res.outcome("failed")
            continue
        ts, ds = r
        if on_curve and ds[0] > 1e-6:
            res.violation("on_curve_not_projected", f"{where} lies on the curve but is projected at distance {ds[0]} (t={ts})", **tags)
        scale = max(1.0, max(abs(float(x)) for pt in P for x in pt)) ** 2
        for t in ts:
            if any(abs(t - k) < 1e-9 for k in ks):
                continue
            tf = lib.to_frac(t)
            Ct, dCt = D.value(tf), dD.value(tf)
            dot = sum(float(a) * (float(b) - float(q)) for a, b, q in zip(dCt, Ct, Q))
            if abs(dot) > 1e-5 * scale:
                res.violation("not_stationary", f"{where}: returned interior parameter {t} with <C'(t), C(t)-P> = {dot:.3e}", **tags)
                break
        res.outcome("fixed_ok")
    res.observe(sorted(res.outcomes.items()))
