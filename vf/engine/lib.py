"""Glue to the implementation under test: import, build objects from exact data, snapshots, outcomes."""
import os
import sys
import warnings
from fractions import Fraction as F

warnings.simplefilter("ignore")

_repo = os.environ.get("VERIF_REPO")
if _repo:
    sys.path.insert(0, os.path.join(_repo, "src"))

import numpy as np  # noqa: E402

np.seterr(all="ignore")

import compmec.nurbs as nurbs  # noqa: E402
from compmec.nurbs import (Curve, Derivate, Function, GeneratorKnotVector, Integrate, Intersection,  # noqa: E402
                           KnotVector, Projection, heavy)

from ..ref import bspline as rb  # noqa: E402

REPO_SRC = os.path.dirname(os.path.dirname(os.path.dirname(os.path.abspath(nurbs.__file__))))


# ------------------------------------------------------------------ conversions
def to_frac(x):
    """exact value of any number the library may return"""
    if isinstance(x, np.ndarray) and x.ndim == 0:
        x = x.item()
    if isinstance(x, F):
        return x
    if isinstance(x, (bool, int)):
        return F(int(x))
    if isinstance(x, np.integer):
        return F(int(x))
    if isinstance(x, (float, np.floating)):
        return F(float(x))
    return F(x)


def to_point(x):
    """library point -> Fraction or tuple of Fractions"""
    if isinstance(x, np.ndarray) and x.ndim == 0:
        return to_frac(x.item())
    try:
        it = iter(x)
    except TypeError:
        return to_frac(x)
    return tuple(to_frac(c) for c in it)


def is_exact_number(x):
    return isinstance(x, (int, F, np.integer)) and not isinstance(x, bool)


def all_exact(x):
    """type walk: every number inside x is int/Fraction"""
    if x is None:
        return True
    if isinstance(x, np.ndarray):
        if x.dtype != object:
            return bool(np.issubdtype(x.dtype, np.integer))
        x = x.tolist()
    try:
        it = iter(x)
    except TypeError:
        return is_exact_number(x)
    return all(all_exact(y) for y in it)


def conv(x, rep):
    """convert exact data (Fraction / nested lists / tuples / None) to a number representation"""
    if x is None:
        return None
    if isinstance(x, (list, tuple)):
        return type(x)(conv(y, rep) for y in x)
    if rep == "frac":
        return F(x)
    if rep == "int":
        x = F(x)
        return int(x) if x.denominator == 1 else x
    if rep == "float":
        return float(x)
    if rep == "npint":
        x = F(x)
        return np.int64(int(x)) if x.denominator == 1 else float(x)
    if rep == "npfloat":
        return np.float64(float(x))
    raise ValueError(rep)


def points_arg(P, rep):
    """control points in the form handed to the library: scalars -> list, tuples -> 2-D array"""
    if P is None:
        return None
    if isinstance(P[0], tuple):
        if rep in ("float", "npfloat"):
            return np.array([[float(c) for c in pt] for pt in P], dtype="float64")
        arr = np.empty((len(P), len(P[0])), dtype=object)
        for i, pt in enumerate(P):
            for c, v in enumerate(pt):
                arr[i, c] = conv(v, rep)
        return arr
    if rep == "npfloat":
        return np.array([float(v) for v in P], dtype="float64")
    if rep == "npint":
        return [float(v) for v in P]  # numpy integer knots with float control points
    return [conv(v, rep) for v in P]


def mk_kv(U, rep="frac", degree=None):
    if degree is None:
        return KnotVector(conv(list(U), rep))
    return KnotVector(conv(list(U), rep), degree)


def _scribble(box):
    """the caller re-uses a container it handed over: overwrite every entry (a curve that kept the container itself
    instead of its values changes with it, which the oracles of the checks then see)"""
    if isinstance(box, np.ndarray):
        box *= 3
        box += 1
    elif isinstance(box, list):
        for i, x in enumerate(box):
            box[i] = x * 3 + 1


def mk_curve(U, P=None, W=None, rep="frac"):
    """Curve from exact data in the given representation. The lists of knots, scalar control points and weights (a numpy
    array of weights for rep npfloat) are the caller's: they are overwritten as soon as the library has received them."""
    kl = conv(list(U), rep)
    c = Curve(kl)
    _scribble(kl)
    if P is not None:
        pl = points_arg(P, rep)
        c.ctrlpoints = pl
        if isinstance(pl, list):
            _scribble(pl)
    if W is not None:
        wl = conv(list(W), rep)
        if rep == "npfloat":
            wl = np.array(wl, dtype="float64")
        c.weights = wl
        _scribble(wl)
    return c


# ------------------------------------------------------------------ snapshots
def tag(x):
    """exact canonical form of one number with its type"""
    if isinstance(x, bool):
        return ("b", x)
    if isinstance(x, int):
        return ("i", x)
    if isinstance(x, F):
        return ("F", x.numerator, x.denominator)
    if isinstance(x, np.integer):
        return ("ni", int(x))
    if isinstance(x, (float, np.floating)):
        return ("f", repr(float(x)))
    return ("o", type(x).__name__, str(x))


def tagdeep(x):
    if x is None:
        return None
    if isinstance(x, np.ndarray):
        x = x.tolist()
    if isinstance(x, str):
        return ("s", x)
    try:
        it = iter(x)
    except TypeError:
        return tag(x)
    return tuple(tagdeep(y) for y in it)


def snap_kv(kv):
    return (tagdeep(tuple(kv)), kv.degree)


def snap_curve(c):
    return (snap_kv(c.knotvector), tagdeep(c.ctrlpoints), tagdeep(c.weights))


def exact_kv(kv):
    return [to_frac(k) for k in kv]


def exact_curve(c):
    """(U, P, W) of a library curve as exact Fractions"""
    U = exact_kv(c.knotvector)
    P = None if c.ctrlpoints is None else [to_point(p) for p in c.ctrlpoints]
    W = None if c.weights is None else [to_frac(w) for w in c.weights]
    return U, P, W


def curve_pw(c):
    U, P, W = exact_curve(c)
    return rb.denote(U, P, W, c.knotvector.degree)


# ------------------------------------------------------------------ outcomes
class HorizonExceeded(BaseException):
    pass


ARG_MUTATIONS = []  # filled by outcome(): (callable, position, before, after) of argument containers a call modified


def _argsnap(x):
    """value snapshot of a caller-owned container passed as an argument (lists, arrays, nested), None for anything else"""
    if isinstance(x, list):
        return ("list", tuple(_argsnap(y) if isinstance(y, (list, np.ndarray)) else tagdeep(y) for y in x))
    if isinstance(x, np.ndarray):
        return ("ndarray", x.dtype.str, x.shape, tagdeep(x.tolist()))
    return None


def drain_arg_mutations():
    out = list(ARG_MUTATIONS)
    del ARG_MUTATIONS[:]
    return out


def outcome(fn, *a, **k):
    """('ok', value) or ('raise', ExceptionTypeName, message). The lists and arrays passed as arguments are the caller's: a
    call that leaves one of them with other contents is recorded in ARG_MUTATIONS (reported per case by the runner)."""
    held = [(i, x, _argsnap(x)) for i, x in list(enumerate(a)) + list(k.items()) if isinstance(x, (list, np.ndarray))]
    try:
        return ("ok", fn(*a, **k))
    except HorizonExceeded:
        raise
    except Exception as e:  # noqa: BLE001
        return ("raise", type(e).__name__, str(e)[:200])
    finally:
        for i, x, before in held:
            after = _argsnap(x)
            if after != before:
                name = getattr(fn, "__qualname__", None) or getattr(fn, "__name__", None) or type(fn).__name__
                ARG_MUTATIONS.append((name, str(i), str(before)[:300], str(after)[:300]))


def close(x, y, rel=1e-9, absol=1e-12):
    """float comparison |x-y| <= rel*max(1,|y|)"""
    x, y = float(x), float(y)
    return abs(x - y) <= rel * max(1.0, abs(y)) + absol


def close_point(x, y, rel=1e-9):
    xs = x if isinstance(x, tuple) else (x,)
    ys = y if isinstance(y, tuple) else (y,)
    return len(xs) == len(ys) and all(close(a, b, rel) for a, b in zip(xs, ys))
