"""Named finite alphabets (DESIGN.md section 3.2). Everything is built from Python ints / Fractions."""
import itertools
import os
from fractions import Fraction as F

# (umin, umax, candidate interior positions)
K0 = (F(-1), F(2), (F(-1, 2), F(0), F(1, 3), F(1)))
K1 = (F(0), F(1), (F(1, 4), F(1, 2), F(3, 5), F(7, 8)))
K2 = (F(1, 3), F(11, 2), (F(1, 2), F(1), F(7, 3), F(5)))
K3 = (F(-3), F(-1, 2), (F(-5, 2), F(-2), F(-4, 3), F(-1)))
BIG = 10 ** 30
K4 = (F(0), F(3 * BIG + 1, BIG), (F(BIG + 7, 3 * BIG), F(BIG + 1, BIG - 1), F(5 * BIG + 3, 3 * BIG + 1), F(7 * BIG - 1, 3 * BIG)))
# far from the origin relative to the knot spacing (magnitude / spacing > 1e6), exact values
K5 = (F(5000000), F(5000004), (F(5000001), F(10000003, 2), F(5000002), F(15000010, 3)))
# very far from the origin (1e9) with unit-size spans: exact data only
K6 = (F(10 ** 9), F(10 ** 9 + 5), (F(10 ** 9 + 1), F(2 * 10 ** 9 + 5, 2), F(10 ** 9 + 3), F(3 * 10 ** 9 + 13, 3)))
ALPHABETS = {"K0": K0, "K1": K1, "K2": K2, "K3": K3, "K4": K4, "K5": K5, "K6": K6}

GENERIC = (2, -3, 5, -7, 11, -13, 17, -19, 23, -29, 31, -37, 41, -43, 47, -53, 59, -61, 67, -71)
GENERIC2 = (3, 1, -4, 1, -5, 9, -2, 6, -5, 3, 5, -8, 9, -7, 9, 3, -2, 3, 8, -4)
GENERIC_W = (F(1), F(2), F(3), F(1, 2), F(5, 3), F(1), F(3, 4), F(2), F(1, 3), F(4), F(1), F(2), F(3), F(1, 2))
SMALL_W = (F(1), F(2), F(1, 3))


def seed():
    try:
        return int(os.environ.get("VERIF_SEED", "0"))
    except ValueError:
        return 0


def tier_alphabets(tier, sd=None):
    """names of the knot-position alphabets enumerated: K0 always, plus the seed-selected one (quick) / all (thorough)"""
    sd = seed() if sd is None else sd
    if tier == "thorough":
        return ["K0", "K1", "K2", "K3"]
    return ["K0", ["K1", "K2", "K3"][sd % 3]]


def knotvectors(K, pmax, kmax, pmin=0, kmin=0, maxmult=None):
    """every clamped knot vector over alphabet K with degree pmin..pmax, kmin..kmax distinct interior knots,
    every multiplicity pattern in {1..p+1}^k; canonical simplest-first order"""
    a, b, cands = ALPHABETS[K] if isinstance(K, str) else K
    for p in range(pmin, pmax + 1):
        for k in range(kmin, kmax + 1):
            for sub in itertools.combinations(cands, k):
                top = p + 1 if maxmult is None else min(p + 1, maxmult)
                for ms in itertools.product(range(1, top + 1), repeat=k):
                    U = [a] * (p + 1)
                    for x, m in zip(sub, ms):
                        U += [x] * m
                    U += [b] * (p + 1)
                    yield p, tuple(U)


def generic_points(n, dim=None, which=0):
    base = GENERIC if which == 0 else GENERIC2
    if dim is None:
        return [F(base[i % len(base)]) for i in range(n)]
    return [tuple(F((GENERIC, GENERIC2, GENERIC[3:] + GENERIC[:3])[c % 3][(i + 2 * c) % 20]) for c in range(dim))
            for i in range(n)]


def unit_vectors(n):
    for i in range(n):
        yield [F(1) if j == i else F(0) for j in range(n)]


def generic_weights(n):
    return [GENERIC_W[i % len(GENERIC_W)] for i in range(n)]


def small_weight_vectors(n, nmax):
    """every vector in SMALL_W^n when n <= nmax (excluding all-equal vectors beyond the all-ones one)"""
    if n > nmax:
        return
    for w in itertools.product(SMALL_W, repeat=n):
        yield list(w)


def params(U, p, outside=False, near=False):
    """every knot, both ends, p+2 equally spaced interior points of every span (+ outside points)"""
    ks = sorted(set(U))
    out = list(ks)
    for a, b in zip(ks[:-1], ks[1:]):
        out += [a + (b - a) * F(t + 1, p + 3) for t in range(p + 2)]
    out = sorted(set(out))
    if near:
        # exact parameters a hair (1e-12) left and right of every interior knot
        out += [k + d for k in ks[1:-1] for d in (-F(1, 10 ** 12), F(1, 10 ** 12))]
        out = sorted(set(out))
    if outside:
        out += [ks[0] - 1, ks[-1] + F(1, 2)]
    return out


def midspans(U):
    ks = sorted(set(U))
    return [(a + b) / 2 for a, b in zip(ks[:-1], ks[1:])]
