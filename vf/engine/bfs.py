"""Explicit-state breadth-first search over operation histories of the real implementation."""
import collections


def bfs(initial, key, check_state, expand, depth, res, budget=None):
    """initial: list of states; key(state) -> hashable canonical form; check_state(state, path) evaluates the
    invariants; expand(state, path) executes every menu entry on a fresh real object in lockstep with the reference
    model and yields (label, next_state) for accepted mutating transitions. Depth-bounded, simplest-first.
    Returns (states, max depth completed, cap hit)."""
    seen = {}
    frontier = collections.deque()
    for s in initial:
        k = key(s)
        if k not in seen:
            seen[k] = ()
            frontier.append((s, (), 0))
    completed = 0
    capped = False
    while frontier:
        s, path, d = frontier.popleft()
        res.state(key(s))
        check_state(s, path)
        if d >= depth:
            continue
        if budget is not None and len(seen) >= budget:
            capped = True
            continue
        for label, nxt in expand(s, path):
            k = key(nxt)
            if k not in seen:
                seen[k] = path + (label,)
                frontier.append((nxt, path + (label,), d + 1))
        completed = max(completed, d + 1)
    if capped:
        res.count("caps_hit")
    res.maxi("max_depth_completed", completed)
    return len(seen), completed, capped
