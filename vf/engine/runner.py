"""Entry point: enumerate the check's finite space on the real code, aggregate, write evidence, report.

usage: python -m vf.engine.runner Cxx --tier quick|thorough [--replay file] [--recheck i,j,k] [--jobs N]
exit 0 = held on everything explored (KNOWN-FINDING lines allowed); 1 = unlisted violation; 2 = check broken
"""
import argparse
import hashlib
import importlib
import json
import multiprocessing as mp
import os
import subprocess
import sys
import time

os.environ.setdefault("PYTHONHASHSEED", "0")

from .. import num  # noqa: E402

ROOT = os.path.dirname(os.path.dirname(os.path.dirname(os.path.abspath(__file__))))


def digest(x):
    return hashlib.md5(repr(x).encode()).hexdigest()[:16]


class Res:
    """what one executed case (or one explored root) reports back"""

    def __init__(self):
        self.transitions = 0
        self.states = set()
        self.outcomes = {}
        self.nontrivial = set()
        self.violations = []
        self.obs = []
        self.extra = {}
        self.traces = 0

    def transition(self, n=1):
        self.transitions += n

    def trace(self, n=1):
        self.traces += n

    def state(self, key):
        self.states.add(digest(key))

    def outcome(self, label, n=1):
        self.outcomes[label] = self.outcomes.get(label, 0) + n

    def nontriv(self, key):
        self.nontrivial.add(digest(key))

    def observe(self, x):
        self.obs.append(digest(x))

    def violation(self, kind, detail, **tags):
        self.violations.append({"kind": kind, "tags": tags, "detail": detail})
        self.obs.append(digest(("V", kind, sorted(tags.items()))))

    def count(self, key, n=1):
        self.extra[key] = self.extra.get(key, 0) + n

    def maxi(self, key, v):
        self.extra[key] = max(self.extra.get(key, v), v)

    def pack(self):
        return {"transitions": self.transitions, "states": self.states, "outcomes": self.outcomes,
                "nontrivial": self.nontrivial, "violations": self.violations, "obs": digest(self.obs),
                "extra": self.extra, "traces": self.traces}


_CHECK = None


def _load(cid):
    global _CHECK
    if _CHECK is None or _CHECK.ID != cid:
        _CHECK = importlib.import_module("vf.checks." + cid.lower())
    return _CHECK


def _run_case(chk, case):
    """one case, plus the oracle every check shares: a call must not modify the lists / arrays passed to it as arguments"""
    from . import lib
    res = Res()
    lib.drain_arg_mutations()
    chk.run_case(case, res)
    seen = set()
    for name, pos, before, after in lib.drain_arg_mutations():
        if name not in seen:
            seen.add(name)
            res.violation("argument_modified", f"{name}: the container passed as argument {pos} was modified by the call: "
                          f"{before} -> {after}", call=name)
    return res


def _work(arg):
    cid, idx, case = arg
    chk = _load(cid)
    t = time.time()
    try:
        res = _run_case(chk, case)
        out = res.pack()
    except BaseException as e:  # noqa: BLE001  harness failure, not a property violation
        import traceback
        out = {"harness_error": f"{type(e).__name__}: {e}\n{traceback.format_exc()[-1500:]}"}
    out["idx"] = idx
    out["t"] = time.time() - t
    return out


def load_findings():
    path = os.path.join(ROOT, "known_findings.json")
    if not os.path.exists(path):
        return []
    with open(path) as f:
        return json.load(f).get("findings", [])


def match_finding(entry, pid, viol):
    if entry.get("status") != "known" or entry.get("property") != pid:
        return False
    if "kind" in entry and entry["kind"] != viol["kind"]:
        return False
    for k, v in entry.get("match", {}).items():
        got = viol["tags"].get(k)
        if isinstance(v, list):
            if got not in v:
                return False
        elif got != v:
            return False
    return True


def class_key(viol):
    return (viol["kind"], tuple(sorted((k, str(v)) for k, v in viol["tags"].items())))


def write_replay(pid, tier, case, viol):
    os.makedirs(os.path.join(ROOT, "replays"), exist_ok=True)
    body = {"property": pid, "tier": tier, "case": num.enc(case), "kind": viol["kind"], "tags": viol["tags"],
            "detail": viol["detail"]}
    h = digest((pid, body["case"], viol["kind"], sorted(viol["tags"].items())))
    path = os.path.join(ROOT, "replays", f"{pid}-{h}.json")
    with open(path, "w") as f:
        json.dump(body, f, indent=1, default=str)
    return path


def replay(pid, path):
    chk = _load(pid)
    with open(path) as f:
        body = json.load(f)
    case = num.dec(body["case"])
    res = _run_case(chk, case)
    findings = load_findings()
    print(f"replay {path}: case = {num.show(case)}")
    bad = 0
    for v in res.violations:
        known = any(match_finding(e, pid, v) for e in findings)
        print(("KNOWN-FINDING" if known else "VIOLATION") + f" property={pid} kind={v['kind']} tags={v['tags']}")
        print("   ", v["detail"])
        bad += 0 if known else 1
    if not res.violations:
        print("no violation on this tree")
    if bad:
        print(f"VIOLATION property={pid} replay={path}")
    return 1 if bad else 0


def recheck(pid, tier, seed, idxs):
    """fresh-process re-execution of selected cases; prints {idx: obs digest}"""
    chk = _load(pid)
    want = set(idxs)
    work = []
    for i, case in enumerate(chk.cases(tier, seed)):
        if i in want:
            work.append((pid, i, case))
        if len(work) == len(want):
            break
    with mp.get_context("fork").Pool(min(16, max(1, len(work)))) as pool:
        out = {o["idx"]: [o.get("obs"), len(o.get("violations", []))] for o in pool.imap_unordered(_work, work)}
    print("RECHECK " + json.dumps(out))
    return 0


def main(argv=None):
    ap = argparse.ArgumentParser()
    ap.add_argument("check")
    ap.add_argument("--tier", default=os.environ.get("VERIF_TIER", "quick"), choices=["quick", "thorough"])
    ap.add_argument("--replay")
    ap.add_argument("--recheck")
    ap.add_argument("--jobs", type=int, default=int(os.environ.get("VERIF_JOBS", "16")))
    ap.add_argument("--no-evidence", action="store_true")
    ap.add_argument("--limit", type=int, default=0, help="debug: only the first N cases (evidence marks the cap)")
    args = ap.parse_args(argv)
    pid = args.check.upper()
    try:
        seed = int(os.environ.get("VERIF_SEED", "0"))
    except ValueError:
        seed = 0
    if args.replay:
        return replay(pid, args.replay)
    if args.recheck:
        return recheck(pid, args.tier, seed, [int(x) for x in args.recheck.split(",") if x])

    t0 = time.time()
    # reference model self-test (quick form) -- a failure is a broken check, never a violation
    from ..ref import selftest
    selftest.main(quick=True)
    chk = _load(pid)
    from . import lib
    cases = list(chk.cases(args.tier, seed))
    capped = False
    if args.limit and len(cases) > args.limit:
        cases, capped = cases[:args.limit], True
    ncases = len(cases)
    print(f"[{pid}] tier={args.tier} seed={seed} cases={ncases} repo={lib.REPO_SRC} jobs={args.jobs}", flush=True)

    agg = {"transitions": 0, "states": set(), "outcomes": {}, "nontrivial": set(), "extra": {}, "traces": 0}
    viols = []
    obs = {}
    harness_errors = []
    slow = []
    work = [(pid, i, c) for i, c in enumerate(cases)]
    # canonical order is simplest-first; the pool is fed heaviest-first (the check's cost estimate, else reverse order)
    cost = getattr(chk, "cost", None)
    work.sort(key=(lambda w: -cost(w[2])) if cost else (lambda w: -w[1]))
    chunk = max(1, min(32, ncases // (args.jobs * 16) or 1))
    if args.jobs > 1 and ncases > 1:
        ctx = mp.get_context("fork")
        pool = ctx.Pool(args.jobs)
        it = pool.imap_unordered(_work, work, chunksize=chunk)
    else:
        pool = None
        it = map(_work, work)
    done = 0
    for out in it:
        done += 1
        if "harness_error" in out:
            harness_errors.append((out["idx"], out["harness_error"]))
            continue
        agg["transitions"] += out["transitions"]
        agg["traces"] += out["traces"]
        agg["states"] |= out["states"]
        agg["nontrivial"] |= out["nontrivial"]
        for k, v in out["outcomes"].items():
            agg["outcomes"][k] = agg["outcomes"].get(k, 0) + v
        for k, v in out["extra"].items():
            if k.startswith("max_"):
                agg["extra"][k] = max(agg["extra"].get(k, v), v)
            else:
                agg["extra"][k] = agg["extra"].get(k, 0) + v
        obs[out["idx"]] = out["obs"]
        for v in out["violations"]:
            v["idx"] = out["idx"]
            viols.append(v)
        if out["t"] > 20:
            slow.append((out["idx"], round(out["t"], 1)))
        if done % max(1, ncases // 10) == 0:
            print(f"[{pid}] {done}/{ncases} cases, {agg['transitions']} transitions, {len(viols)} violations, "
                  f"{time.time() - t0:.0f}s", flush=True)
    if pool:
        pool.close()
        pool.join()

    if harness_errors:
        for i, e in harness_errors[:5]:
            print(f"HARNESS-ERROR case {i}: {num.show(cases[i])}\n{e}")
        print(f"[{pid}] {len(harness_errors)} harness errors: the check is broken (exit 2)")
        return 2

    # determinism: first cases and violating cases re-executed in a fresh interpreter
    viols.sort(key=lambda v: (v["idx"], v["kind"]))
    vidx = []
    for v in viols:
        if v["idx"] not in vidx:
            vidx.append(v["idx"])
    ndet = getattr(chk, "DETERMINISM_CASES", 50)
    budget = getattr(chk, "DETERMINISM_BUDGET_S", 30.0)
    re_idx = []
    for i in list(range(min(ndet, ncases))) + vidx[:10]:
        if i not in re_idx:
            re_idx.append(i)
    env = dict(os.environ, PYTHONHASHSEED="0", VERIF_SEED=str(seed))
    nondet = []
    if re_idx and not capped:
        p = subprocess.run([sys.executable, "-m", "vf.engine.runner", pid, "--tier", args.tier, "--recheck",
                            ",".join(map(str, re_idx))], capture_output=True, text=True, cwd=ROOT, env=env)
        line = [ln for ln in p.stdout.splitlines() if ln.startswith("RECHECK ")]
        if p.returncode != 0 or not line:
            print(p.stdout[-2000:], p.stderr[-2000:])
            print(f"[{pid}] determinism re-execution failed (exit 2)")
            return 2
        again = json.loads(line[0][8:])
        nondet = [i for i in re_idx if (again.get(str(i)) or [None])[0] != obs.get(i)]
        if nondet:
            # a case that is observed differently in a fresh process AND violates the property in one of the two executions
            # is history-dependent behaviour of the implementation (e.g. a value-keyed cache filled by an earlier case of
            # the same worker): that is reported as a violation. Differences without any violation are a harness problem.
            withviol = [i for i in nondet if (again.get(str(i)) or [None, 0])[1] or any(v["idx"] == i for v in viols)]
            if not withviol:
                print(f"[{pid}] NONDETERMINISM in the harness: cases {nondet[:10]} observed differently in a fresh process")
                return 2
            for i in withviol:
                if not any(v["idx"] == i for v in viols):
                    viols.append({"kind": "history_dependent", "tags": {}, "idx": i, "detail": "this case violates the property "
                                  "when executed in a fresh process but not after the earlier cases of its worker (or the "
                                  "reverse): the implementation's result depends on what was computed before"})
            print(f"[{pid}] history-dependent behaviour: cases {withviol[:10]} are observed differently in a fresh process")

    findings = load_findings()
    known_hits = {}
    unknown = {}
    for v in viols:
        hit = next((i for i, e in enumerate(findings) if match_finding(e, pid, v)), None)
        if hit is not None:
            known_hits.setdefault(hit, []).append(v)
        else:
            unknown.setdefault(class_key(v), []).append(v)
    for i, vs in known_hits.items():
        e = findings[i]
        print(f"KNOWN-FINDING: property={pid} {e.get('what', '')} [{len(vs)} cases, e.g. {num.show(cases[vs[0]['idx']])[:160]}]")
    replays = []
    for ck, vs in sorted(unknown.items(), key=lambda kv: kv[1][0]["idx"]):
        v = vs[0]
        path = write_replay(pid, args.tier, cases[v["idx"]], v)
        replays.append(path)
        if len(replays) <= 25:
            print(f"VIOLATION property={pid} replay={path}")
            print(f"    class={ck[0]} tags={dict(ck[1])} count={len(vs)} first: {v['detail'][:400]}")
    if len(replays) > 25:
        print(f"[{pid}] ... {len(replays) - 25} more violation classes")

    wall = time.time() - t0
    samples = []
    for i in sorted(set([0, ncases // 3, 2 * ncases // 3, ncases - 1])):
        if 0 <= i < ncases:
            samples.append({"index": i, "case": num.show(chk.describe(cases[i]) if hasattr(chk, "describe") else cases[i])[:600]})
    cov = {
        "states": len(agg["states"]),
        "transitions": agg["transitions"],
        "traces_validated_against_impl": agg["traces"] or ncases,
        "samples": samples,
        "evaluations": ncases,
        "distinct_nontrivial": len(agg["nontrivial"]),
        "rule": chk.RULE,
        "exhaustive": not capped and not agg["extra"].get("caps_hit"),
        "caps_hit": bool(capped or agg["extra"].get("caps_hit")),
        "outcomes": dict(sorted(agg["outcomes"].items())),
        "determinism_rechecked_cases": len(re_idx),
        "bounds": chk.bounds(args.tier, seed) if hasattr(chk, "bounds") else {},
        "counters": {k: v for k, v in sorted(agg["extra"].items())},
        "slow_cases": slow[:10],
    }
    ev = {
        "property_id": pid, "tier": args.tier, "seed": seed, "level": "model_checking", "coverage": cov,
        "assumptions": getattr(chk, "ASSUMPTIONS", []), "wall_s": round(wall, 2),
        "violations": sum(len(v) for v in unknown.values()),
        "known_findings": sum(len(v) for v in known_hits.values()),
        "violation_classes": len(unknown), "repo": lib.REPO_SRC,
    }
    if not args.no_evidence:
        os.makedirs(os.path.join(ROOT, "evidence"), exist_ok=True)
        with open(os.path.join(ROOT, "evidence", f"{pid}.json"), "w") as f:
            json.dump(ev, f, indent=1)
    print(f"[{pid}] done: cases={ncases} states={cov['states']} transitions={cov['transitions']} "
          f"nontrivial={cov['distinct_nontrivial']} outcomes={cov['outcomes']} violations={ev['violations']} "
          f"known={ev['known_findings']} wall={wall:.1f}s")
    return 1 if unknown else 0


if __name__ == "__main__":
    sys.exit(main())
