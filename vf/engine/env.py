"""Environment control: memo tables, the random source, horizons."""
import copy

from . import lib


def memo_tables():
    """every dict/list/set class attribute of every class in heavy (the module-level memo tables)"""
    out = {}
    for cname, cls in vars(lib.heavy).items():
        if not isinstance(cls, type) or cls.__module__ != lib.heavy.__name__:
            continue
        for aname, val in vars(cls).items():
            if isinstance(val, (dict, list, set)):
                out[(cname, aname)] = val
    return out


_PRISTINE = {k: copy.deepcopy(v) for k, v in memo_tables().items()}


def reset_memo():
    for k, tbl in memo_tables().items():
        tbl.clear()
        if isinstance(tbl, dict):
            tbl.update(copy.deepcopy(_PRISTINE[k]))
        elif isinstance(tbl, list):
            tbl.extend(copy.deepcopy(_PRISTINE[k]))
        else:
            tbl.update(copy.deepcopy(_PRISTINE[k]))


def memo_state():
    return tuple(sorted((k, tuple(sorted((n, lib.tagdeep(v)) for n, v in tbl.items())))
                        for k, tbl in memo_tables().items() if isinstance(tbl, dict)))


class RandomStub:
    """replaces np.random.randint as looked up by the library with an enumerated answer"""

    def __init__(self, answer):
        self.answer = list(answer)
        self.calls = []

    def __call__(self, low, high=None, size=None, *a, **k):
        self.calls.append((low, high, size))
        n = size if isinstance(size, int) else len(self.answer)
        if n != len(self.answer):
            raise AssertionError(f"random stub asked for {n} numbers, answer has {len(self.answer)}")
        for v in self.answer:
            assert low <= v < high
        return lib.np.array(self.answer, dtype="int64")

    def __enter__(self):
        self.saved = lib.np.random.randint
        lib.np.random.randint = self
        return self

    def __exit__(self, *exc):
        lib.np.random.randint = self.saved
        return False


class EvalHorizon:
    """counts Curve.eval calls; aborts the execution with HorizonExceeded after `limit`"""

    def __init__(self, limit=20000):
        self.limit = limit
        self.count = 0

    def __enter__(self):
        self.saved = lib.Curve.eval
        horizon = self
        saved = self.saved

        def eval(self_, nodes):
            horizon.count += 1
            if horizon.count > horizon.limit:
                raise lib.HorizonExceeded()
            return saved(self_, nodes)

        lib.Curve.eval = eval
        return self

    def __exit__(self, *exc):
        lib.Curve.eval = self.saved
        return False


class Watchdog:
    """wall-clock backstop for loops that make no observable progress (e.g. a NaN parameter in a binary search):
    raises HorizonExceeded in the running execution after `seconds`. Only used around operations that normally take
    milliseconds; an execution stopped by it is reported as non-termination, never as a timeout of the check."""

    def __init__(self, seconds=20.0):
        self.seconds = seconds

    def _fire(self, signum, frame):
        raise lib.HorizonExceeded()

    def __enter__(self):
        import signal
        self.signal = signal
        self.old = signal.signal(signal.SIGALRM, self._fire)
        signal.setitimer(signal.ITIMER_REAL, self.seconds)
        return self

    def __exit__(self, *exc):
        self.signal.setitimer(self.signal.ITIMER_REAL, 0)
        self.signal.signal(self.signal.SIGALRM, self.old)
        return False
