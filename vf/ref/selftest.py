"""Self-test of the reference model: independent formulations must agree on the alphabet.
Exit 0 = ok, exit 2 = the reference model is broken (never a violation of the library)."""
import sys
import time
from fractions import Fraction as F
from math import comb

from . import poly
from .bspline import (basis_function_pw, basis_polys, coxdeboor, coxdeboor_all, denote, knots_of, spans_of, value)
from .space import (basis_change, continuity_order, dual_coeffs, gram, in_space, l2_project, matmul, minimal_form,
                    rank_nullspace, solve, subspace, inner_with_basis, collocation)
from ..engine import alphabets as al


def fail(msg):
    print("SELFTEST-FAIL", msg)
    sys.exit(2)


def lstsq_membership(f, V, q):
    """independent membership test: least squares through collocation at many points, exact residual"""
    ks = sorted(set(f.breaks()) | set(V))
    d = max(f.max_piece_degree(), q)
    pts = []
    for a, b in zip(ks[:-1], ks[1:]):
        pts += [(a + (b - a) * F(t + 1, d + 2), a, b) for t in range(d + 1)]
    n = len(V) - q - 1
    A = [coxdeboor_all(V, q, u) for u, _, _ in pts]
    y = [[poly.ev(f.piece(a, b)[2][0], u) / poly.ev(f.piece(a, b)[3], u)] for u, a, b in pts]
    At = [list(r) for r in zip(*A)]
    c = solve(matmul(At, A), matmul(At, y))
    return matmul(A, c) == y


def main(quick=True):
    t0 = time.time()
    n = 0
    for K in (("K0",) if quick else ("K0", "K2")):
        for p, U in al.knotvectors(K, 2 if quick else 3, 1 if quick else 2):
            U = list(U)
            npts = len(U) - p - 1
            # 1. pointwise recursion == polynomial recursion == iterative table, for every sub-degree
            for j in range(p + 1):
                for a, b in spans_of(U):
                    Np = basis_polys(U, j, a, b)
                    for t in range(j + 2):
                        u = a + (b - a) * F(t, j + 2)  # includes a itself (right-continuity)
                        tab = coxdeboor_all(U, j, u)
                        for i in range(len(U) - j - 1):
                            v = coxdeboor(U, i, j, u)
                            if v != tab[i] or v != poly.ev(Np[i], u):
                                fail(f"basis mismatch U={U} i={i} j={j} u={u}")
                            n += 1
            # 2. partition of unity, non-negativity, Greville/Marsden identity, value at umax = left limit
            grev = [sum(U[i + 1:i + p + 1], F(0)) / p if p else None for i in range(npts)]
            for u in al.params(U, p):
                tab = coxdeboor_all(U, p, u)
                if sum(tab) != 1 or any(x < 0 for x in tab):
                    fail(f"partition of unity U={U} u={u}")
                if p >= 1 and sum(g * x for g, x in zip(grev, tab)) != u:
                    fail(f"marsden U={U} u={u}")
            last = coxdeboor_all(U, p, U[-1])
            if last != [F(0)] * (npts - 1) + [F(1)]:
                fail(f"umax U={U}")
            # 3. dual functionals: lambda_i N_j = delta_ij
            for j in range(npts):
                e = [F(int(k == j)) for k in range(npts)]
                c = dual_coeffs(denote(U, e), U, p)
                if [x[0] for x in c] != e:
                    fail(f"dual functional U={U} j={j}")
            # 4. denotation == pointwise value (rational too)
            P = al.generic_points(npts)
            W = al.generic_weights(npts)
            for WW in (None, W):
                D = denote(U, P, WW)
                for u in al.params(U, p):
                    if D.value(u) != value(U, P, u, WW):
                        fail(f"denote/value U={U} u={u} W={WW}")
            # 5. minimal form of a generic curve is the curve itself
            q, V, c = minimal_form(denote(U, P))
            if (q, V, [x[0] for x in c]) != (p, U, P):
                fail(f"minimal_form U={U}: {q} {V} {c}")
    # 6. Bernstein closed forms
    for p in range(6):
        U = [F(0)] * (p + 1) + [F(1)] * (p + 1)
        Np = basis_polys(U, p, F(0), F(1))
        for i in range(p + 1):
            expect = poly.mul(poly.scale(poly.trim([F(0)] * i + [F(1)]), F(comb(p, i))),
                              poly.from_roots_neg([F(1)] * (p - i)))
            if Np[i] != expect:
                fail(f"bernstein p={p} i={i}")
    # 7. basis change / membership / gram on pairs
    pairs = 0
    vs = [(p, list(U)) for p, U in al.knotvectors("K0", 2, 2)]
    for p, U in vs[::(11 if quick else 3)]:
        for q, V in vs[::(13 if quick else 5)]:
            sub = subspace(U, V, p, q)
            T = basis_change(U, V, p, q)
            if (T is not None) != sub:
                fail("subspace/basis_change")
            nU = len(U) - p - 1
            for j in range(nU):
                e = [F(int(k == j)) for k in range(nU)]
                f = denote(U, e)
                if in_space(f, V, q) != lstsq_membership(f, V, q):
                    fail(f"membership formulations disagree U={U} V={V} j={j}")
                if T is not None:
                    g = denote(V, [T[i][j] for i in range(len(T))])
                    if not g.same(f):
                        fail(f"basis_change wrong U={U} V={V} j={j}")
            # L2 projection: residual orthogonal (independent check through inner_with_basis)
            f = denote(U, al.generic_points(nU))
            c = l2_project(f, V, None, q)
            g = denote(V, [x[0] for x in c], None, q)
            r = f.add(g, -1)
            if any(x[0] != 0 for x in inner_with_basis(r, V, q)):
                fail(f"l2 projection U={U} V={V}")
            if sub and not g.same(f):
                fail("projection of member")
            pairs += 1
    # 8. Gram matrix against direct integration of products of denotations
    U = [F(-1)] * 3 + [F(0), F(1, 3), F(1, 3)] + [F(2)] * 3
    G = gram(U, U)
    for i in range(6):
        for j in range(6):
            fi = basis_function_pw(U, i, 2)
            fj = basis_function_pw(U, j, 2)
            if fi.mul(fj).integral() != G[i][j]:
                fail("gram")
    if not quick:
        print(f"selftest ok: {n} basis values, {pairs} space pairs, {time.time() - t0:.1f}s")
    return 0


if __name__ == "__main__":
    sys.exit(main(quick=False))
