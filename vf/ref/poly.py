"""Polynomials over Fraction: tuples of coefficients, low order first, no trailing zeros."""
from fractions import Fraction as F

ZERO = ()
ONE = (F(1),)


def trim(a):
    a = list(a)
    while a and a[-1] == 0:
        a.pop()
    return tuple(a)


def const(c):
    return trim((F(c),))


def add(a, b):
    if len(a) < len(b):
        a, b = b, a
    r = list(a)
    for i, x in enumerate(b):
        r[i] = r[i] + x
    return trim(r)


def scale(a, s):
    if s == 0:
        return ZERO
    return tuple(s * x for x in a)


def sub(a, b):
    return add(a, scale(b, F(-1)))


def mul(a, b):
    if not a or not b:
        return ZERO
    r = [F(0)] * (len(a) + len(b) - 1)
    for i, x in enumerate(a):
        if x == 0:
            continue
        for j, y in enumerate(b):
            r[i + j] += x * y
    return trim(r)


def ev(a, u):
    s = F(0)
    for c in reversed(a):
        s = s * u + c
    return s


def deriv(a):
    return trim([i * a[i] for i in range(1, len(a))])


def nderiv(a, r):
    for _ in range(r):
        a = deriv(a)
    return a


def antideriv(a):
    return trim([F(0)] + [a[i] / (i + 1) for i in range(len(a))])


def integ(a, lo, hi):
    A = antideriv(a)
    return ev(A, hi) - ev(A, lo)


def degree(a):
    """degree of the polynomial, -1 for the zero polynomial"""
    return len(a) - 1


def compose_affine(a, s, t):
    """a(s*u + t) as a polynomial in u"""
    r = ZERO
    lin = trim((F(t), F(s)))
    for c in reversed(a):
        r = add(mul(r, lin), const(c))
    return r


def from_roots_neg(ts):
    """prod_j (t_j - x) as a polynomial in x"""
    r = ONE
    for t in ts:
        r = mul(r, (F(t), F(-1)))
    return r
