"""Exact planar geometry over Fraction: segment/polyline intersections and point-polyline distance."""
from fractions import Fraction as F


def cross(o, a, b):
    return (a[0] - o[0]) * (b[1] - o[1]) - (a[1] - o[1]) * (b[0] - o[0])


def on_segment(p, q, r):
    """r on the closed segment pq"""
    return (cross(p, q, r) == 0 and min(p[0], q[0]) <= r[0] <= max(p[0], q[0])
            and min(p[1], q[1]) <= r[1] <= max(p[1], q[1]))


def classify_segments(A, B):
    """A = (a0, a1), B = (b0, b1) with exact coordinates.
    -> ('cross', (s, t)) transversal crossing interior to both (s, t in (0,1) local parameters)
       ('touch', None)   an endpoint lies on the other segment (includes collinear overlap)
       ('disjoint', None)"""
    a0, a1 = A
    b0, b1 = B
    d1 = cross(a0, a1, b0)
    d2 = cross(a0, a1, b1)
    d3 = cross(b0, b1, a0)
    d4 = cross(b0, b1, a1)
    if d1 * d2 < 0 and d3 * d4 < 0:
        s = F(d3) / F(d3 - d4)
        t = F(d1) / F(d1 - d2)
        return "cross", (s, t)
    if on_segment(a0, a1, b0) or on_segment(a0, a1, b1) or on_segment(b0, b1, a0) or on_segment(b0, b1, a1):
        return "touch", None
    return "disjoint", None


def boxes_overlap(A, B):
    ax = sorted(p[0] for p in A)
    ay = sorted(p[1] for p in A)
    bx = sorted(p[0] for p in B)
    by = sorted(p[1] for p in B)
    return ax[0] <= bx[-1] and bx[0] <= ax[-1] and ay[0] <= by[-1] and by[0] <= ay[-1]


def polyline_segments(knots, pts):
    """[(u0, u1, p0, p1)] for a degree-1 curve with distinct knots `knots` and vertices `pts`"""
    return [(knots[i], knots[i + 1], pts[i], pts[i + 1]) for i in range(len(pts) - 1)]


def classify_polylines(ka, pa, kb, pb):
    """all pairwise segment classifications -> (kind, crossings) where kind in
    {'disjoint', 'cross' (only transversal interior crossings), 'touch' (some touching/overlap pair)};
    crossings = list of exact (t, u) curve parameters"""
    kinds = []
    crossings = []
    for (u0, u1, p0, p1) in polyline_segments(ka, pa):
        for (v0, v1, q0, q1) in polyline_segments(kb, pb):
            k, st = classify_segments((p0, p1), (q0, q1))
            kinds.append(k)
            if k == "cross":
                crossings.append((u0 + (u1 - u0) * st[0], v0 + (v1 - v0) * st[1]))
    if "touch" in kinds:
        return "touch", crossings
    if "cross" in kinds:
        return "cross", crossings
    return "disjoint", crossings


def point_segment_sqdist(P, a, b):
    """(squared distance, local parameter in [0,1] of the nearest point) - exact, any dimension"""
    d = [y - x for x, y in zip(a, b)]
    L2 = sum(c * c for c in d)
    if L2 == 0:
        return sum((p - x) ** 2 for p, x in zip(P, a)), F(0)
    t = F(sum((p - x) * c for p, x, c in zip(P, a, d))) / F(L2)
    t = max(F(0), min(F(1), t))
    return sum((p - (x + t * c)) ** 2 for p, x, c in zip(P, a, d)), t


def point_polyline_sqdist(P, knots, pts):
    """(minimal squared distance, [curve parameters attaining it]) - exact"""
    best = None
    prm = []
    for (u0, u1, p0, p1) in polyline_segments(knots, pts):
        d, t = point_segment_sqdist(P, p0, p1)
        u = u0 + (u1 - u0) * t
        if best is None or d < best:
            best, prm = d, [u]
        elif d == best and u not in prm:
            prm.append(u)
    return best, sorted(prm)
