"""Spline spaces over Fraction: membership, coefficients, basis change, Gram matrices, projections."""
from fractions import Fraction as F
from math import factorial

from . import poly
from .bspline import (PW, basis_polys, coxdeboor_all, degree_of, denote, knots_of, mult, npts_of,
                      spans_of, wellformed)


# ---------------------------------------------------------------- linear algebra
def solve(A, B):
    """solve A X = B (A n x n, B n x m); raises ZeroDivisionError if singular"""
    n = len(A)
    M = [[F(x) for x in A[i]] + [F(x) for x in B[i]] for i in range(n)]
    for c in range(n):
        piv = next((r for r in range(c, n) if M[r][c] != 0), None)
        if piv is None:
            raise ZeroDivisionError("singular")
        M[c], M[piv] = M[piv], M[c]
        pv = M[c][c]
        M[c] = [x / pv for x in M[c]]
        for r in range(n):
            if r != c and M[r][c] != 0:
                f = M[r][c]
                M[r] = [x - f * y for x, y in zip(M[r], M[c])]
    return [row[n:] for row in M]


def rank_nullspace(A, ncol=None):
    """rank and a basis of the null space of A (rows x cols)"""
    rows = [[F(x) for x in r] for r in A]
    if ncol is None:
        ncol = len(rows[0]) if rows else 0
    piv = []
    r = 0
    for c in range(ncol):
        if r == len(rows):
            break
        p = next((i for i in range(r, len(rows)) if rows[i][c] != 0), None)
        if p is None:
            continue
        rows[r], rows[p] = rows[p], rows[r]
        pv = rows[r][c]
        rows[r] = [x / pv for x in rows[r]]
        for i in range(len(rows)):
            if i != r and rows[i][c] != 0:
                f = rows[i][c]
                rows[i] = [x - f * y for x, y in zip(rows[i], rows[r])]
        piv.append(c)
        r += 1
    free = [c for c in range(ncol) if c not in piv]
    ns = []
    for fc in free:
        v = [F(0)] * ncol
        v[fc] = F(1)
        for i, pc in enumerate(piv):
            v[pc] = -rows[i][fc]
        ns.append(v)
    return len(piv), ns


def matmul(A, B):
    Bt = list(zip(*B))
    return [[sum(a * b for a, b in zip(r, c)) for c in Bt] for r in A]


def matvec(A, v):
    return [sum(a * b for a, b in zip(r, v)) for r in A]


def transpose(A):
    return [list(r) for r in zip(*A)]


# ---------------------------------------------------------------- continuity / membership
def continuity_order(f: PW, k, maxorder=None):
    """largest r >= -1 such that derivatives 0..r of the pieces left and right of the interior break k agree
    (componentwise); None if the two pieces are the same rational function. Polynomial pieces only."""
    L = [pc for pc in f.pieces if pc[1] == k][0]
    R = [pc for pc in f.pieces if pc[0] == k][0]
    assert len(L[3]) == 1 and len(R[3]) == 1
    Ln = [poly.scale(n, 1 / L[3][0]) for n in L[2]]
    Rn = [poly.scale(n, 1 / R[3][0]) for n in R[2]]
    if Ln == Rn:
        return None
    r = -1
    while True:
        if any(poly.ev(a, k) != poly.ev(b, k) for a, b in zip(Ln, Rn)):
            return r
        r += 1
        Ln = [poly.deriv(a) for a in Ln]
        Rn = [poly.deriv(b) for b in Rn]


def in_space(f: PW, V, q=None):
    """is the piecewise polynomial f an element of the spline space over V (Curry-Schoenberg characterisation:
    piece degrees <= q, continuity order at each break >= q - mult_V)"""
    V = [F(x) for x in V]
    q = degree_of(V) if q is None else q
    if f.a != V[0] or f.b != V[-1]:
        return False
    if not f.is_polynomial():
        return False
    f = f.normalized()
    if f.max_piece_degree() > q:
        return False
    g = f.refine(V)
    for k in g.breaks()[1:-1]:
        r = continuity_order(g, k)
        if r is None:
            continue
        if r < q - mult(V, k):
            return False
    return True


def dual_coeffs(f: PW, V, q=None):
    """coefficients of f in the B-spline basis over V by the de Boor-Fix dual functionals.
    f must be in the space (not checked here). Returns list of points (tuples)."""
    V = [F(x) for x in V]
    q = degree_of(V) if q is None else q
    n = len(V) - q - 1
    g = f.normalized().refine(V)
    fq = factorial(q)
    out = []
    for i in range(n):
        # any non-empty span inside [V[i], V[i+q+1]]
        j = next(j for j in range(i, i + q + 1) if V[j] < V[j + 1])
        a, b = V[j], V[j + 1]
        pc = next(x for x in g.pieces if a <= x[0] < b)  # f may have (removable) breaks inside a span of V
        tau = (pc[0] + pc[1]) / 2
        psi = poly.from_roots_neg(V[i + 1:i + q + 1])
        vals = []
        for num in pc[2]:
            s = F(0)
            for r in range(q + 1):
                s += (-1) ** (q - r) * poly.ev(poly.nderiv(psi, q - r), tau) * poly.ev(poly.nderiv(num, r), tau)
            vals.append(s / fq)
        out.append(tuple(vals))
    return out


def coeffs_in(f: PW, V, q=None):
    """coefficients (list of tuples) of f over V, or None if f is not in the space"""
    if not in_space(f, V, q):
        return None
    return dual_coeffs(f, V, q)


def basis_change(U, V, p=None, q=None):
    """matrix T (nV x nU) with N^U_j = sum_i T[i][j] N^V_i, or None if space(U) is not inside space(V)"""
    U = [F(x) for x in U]
    V = [F(x) for x in V]
    p = degree_of(U) if p is None else p
    q = degree_of(V) if q is None else q
    nU, nV = len(U) - p - 1, len(V) - q - 1
    if not subspace(U, V, p, q):
        return None
    T = [[F(0)] * nU for _ in range(nV)]
    for j in range(nU):
        e = [F(0)] * nU
        e[j] = F(1)
        f = denote(U, e, None, p)
        c = dual_coeffs(f, V, q)
        for i in range(nV):
            T[i][j] = c[i][0]
    return T


def subspace(U, V, p=None, q=None):
    """space(U) subset of space(V)? (same interval, q >= p, for each knot mult_V >= mult_U + q - p)"""
    p = degree_of(U) if p is None else p
    q = degree_of(V) if q is None else q
    if U[0] != V[0] or U[-1] != V[-1] or q < p:
        return False
    for k in knots_of(U)[1:-1]:
        if mult(V, k) < mult(U, k) + q - p:
            return False
    return True


def apply_matrix(T, pts):
    """T (m x n) applied to a list of n points (tuples)"""
    dim = len(pts[0])
    return [tuple(sum(T[i][j] * pts[j][c] for j in range(len(pts))) for c in range(dim)) for i in range(len(T))]


def minimal_form(f: PW):
    """canonical minimal (degree, knot vector, coefficients) representing the piecewise polynomial f"""
    f = f.normalized()
    p = f.max_piece_degree()
    U = [f.a] * (p + 1)
    for k in f.breaks()[1:-1]:
        r = continuity_order(f, k)
        if r is None:
            continue
        U += [k] * (p - r)
    U += [f.b] * (p + 1)
    return p, U, dual_coeffs(f, U, p)


# ---------------------------------------------------------------- inner products
def gram(U, V, p=None, q=None):
    """G[i][j] = integral N^U_i N^V_j"""
    U = [F(x) for x in U]
    V = [F(x) for x in V]
    p = degree_of(U) if p is None else p
    q = degree_of(V) if q is None else q
    nU, nV = len(U) - p - 1, len(V) - q - 1
    G = [[F(0)] * nV for _ in range(nU)]
    ks = sorted(set(U) | set(V))
    for a, b in zip(ks[:-1], ks[1:]):
        NU = basis_polys(U, p, a, b)
        NV = basis_polys(V, q, a, b)
        for i in range(nU):
            if not NU[i]:
                continue
            for j in range(nV):
                if not NV[j]:
                    continue
                G[i][j] += poly.integ(poly.mul(NU[i], NV[j]), a, b)
    return G


def inner_with_basis(f: PW, V, q=None):
    """[ integral f_c N^V_i ] for each i -> list of tuples (f piecewise polynomial)"""
    V = [F(x) for x in V]
    q = degree_of(V) if q is None else q
    nV = len(V) - q - 1
    g = f.normalized().refine(V)
    out = [[F(0)] * f.dim for _ in range(nV)]
    for a, b, nums, den in g.pieces:
        NV = basis_polys(V, q, a, b)
        for i in range(nV):
            if not NV[i]:
                continue
            for c, n in enumerate(nums):
                out[i][c] += poly.integ(poly.mul(n, NV[i]), a, b)
    return [tuple(r) for r in out]


def collocation(V, nodes, W=None, q=None):
    """B[k][i] = R_i(z_k)"""
    V = [F(x) for x in V]
    q = degree_of(V) if q is None else q
    B = []
    for z in nodes:
        N = coxdeboor_all(V, q, F(z))
        if W is not None:
            d = sum(n * F(w) for n, w in zip(N, W))
            N = [n * F(w) / d for n, w in zip(N, W)]
        B.append(N)
    return B


def l2_project(f: PW, V, nodes=None, q=None):
    """exact L2 projection of the piecewise polynomial f on space(V); with nodes: the minimiser of
    integral |f-g|^2 subject to g(z)=f(z) at the nodes. Returns coefficients (list of tuples)."""
    V = [F(x) for x in V]
    q = degree_of(V) if q is None else q
    n = len(V) - q - 1
    G = gram(V, V, q, q)
    rhs = inner_with_basis(f, V, q)
    dim = f.dim
    if not nodes:
        X = solve(G, [list(r) for r in rhs])
        return [tuple(r) for r in X]
    B = collocation(V, nodes, None, q)
    m = len(nodes)
    fz = []
    for z in nodes:
        v = f.value(z)
        fz.append(v if isinstance(v, tuple) else (v,))
    # KKT system
    K = [G[i] + [B[k][i] for k in range(m)] for i in range(n)]
    K += [B[k] + [F(0)] * m for k in range(m)]
    R = [list(rhs[i]) for i in range(n)] + [list(fz[k]) for k in range(m)]
    X = solve(K, R)
    return [tuple(r) for r in X[:n]]


def unisolvent(V, nodes, q=None):
    """nodes (<= npts) give independent interpolation conditions on space(V)"""
    B = collocation(V, nodes, None, q)
    r, _ = rank_nullspace(B)
    return r == len(nodes)


def l2_projection_matrix(U, V, nodes=None, p=None, q=None):
    """matrix M (nV x nU) with (projection of sum_j P_j N^U_j on space(V)) = sum_i (M P)_i N^V_i, and the Gram
    matrices (A, B, C) = (<N^U,N^U>, <N^U,N^V>, <N^V,N^V>) for the exact integral of the squared residual"""
    U = [F(x) for x in U]
    V = [F(x) for x in V]
    p = degree_of(U) if p is None else p
    q = degree_of(V) if q is None else q
    nU, nV = len(U) - p - 1, len(V) - q - 1
    A, B, C = gram(U, U, p, p), gram(U, V, p, q), gram(V, V, q, q)
    Bt = transpose(B)
    if not nodes:
        return solve(C, Bt), (A, B, C)
    Bz = collocation(V, nodes, None, q)
    Fz = collocation(U, nodes, None, p)
    m = len(nodes)
    K = [C[i] + [Bz[k][i] for k in range(m)] for i in range(nV)]
    K += [Bz[k] + [F(0)] * m for k in range(m)]
    R = [list(Bt[i]) for i in range(nV)] + [list(Fz[k]) for k in range(m)]
    X = solve(K, R)
    return X[:nV], (A, B, C)


def sq_residual(P, D, grams):
    """integral of (sum P_j N^U_j - sum D_i N^V_i)^2 from the Gram matrices (scalar coefficient lists)"""
    A, B, C = grams
    AP = matvec(A, P)
    BD = matvec(B, D)
    CD = matvec(C, D)
    return sum(x * y for x, y in zip(P, AP)) - 2 * sum(x * y for x, y in zip(P, BD)) + sum(x * y for x, y in zip(D, CD))
