"""Reference KnotVector: a sorted list of Fractions plus degree, and a plain spec of every public operation.

step(U, p, op) -> ("ok", newU, newp) | ("ok-value", value) | ("reject", must_be_valueerror: bool)
Non-mutating operations return ("ok-value", ...) and never change the state.
"""
from fractions import Fraction as F
from numbers import Number

from .bspline import knots_of, mult, wellformed


def is_num(x):
    return isinstance(x, Number) and not isinstance(x, bool)


def nodes_ok(nodes):
    if isinstance(nodes, (str, bytes)) or nodes is None:
        return False
    try:
        nodes = list(nodes)
    except TypeError:
        return False
    return all(is_num(x) for x in nodes)


def ctor(values, degree=None):
    """is `values` (with optional explicit degree) a well-formed clamped knot vector?"""
    if isinstance(values, (str, bytes)) or values is None:
        return False
    try:
        vals = list(values)
    except TypeError:
        return False
    if not all(is_num(x) for x in vals):
        return False
    if any(x != x for x in vals):  # nan
        return False
    if degree is not None and (not isinstance(degree, int) or degree < 0):
        return False
    return wellformed([F(x) for x in vals], degree)


def insert(U, p, nodes):
    if not nodes_ok(nodes):
        return ("reject", False)
    nodes = [F(x) for x in nodes]
    if any(x < U[0] or x > U[-1] for x in nodes):
        return ("reject", True)
    V = sorted(list(U) + nodes)
    q = mult(V, V[0]) - 1
    if not wellformed(V, q):
        return ("reject", True)
    return ("ok", V, q)


def remove(U, p, nodes):
    if not nodes_ok(nodes):
        return ("reject", False)
    V = list(U)
    for x in nodes:
        x = F(x)
        if x not in V:
            return ("reject", True)
        V.remove(x)
    if len(V) < 2 or V[0] != U[0] or V[-1] != U[-1]:
        return ("reject", True)
    q = mult(V, V[0]) - 1
    if not wellformed(V, q):
        return ("reject", True)
    return ("ok", V, q)


def shift(U, p, a):
    if not is_num(a):
        return ("reject", False)
    return ("ok", [k + F(a) for k in U], p)


def scale(U, p, s):
    if not is_num(s) or not s > 0:
        return ("reject", False)
    return ("ok", [k * F(s) for k in U], p)


def normalize(U, p):
    a, b = U[0], U[-1]
    return ("ok", [(k - a) / (b - a) for k in U], p)


def set_degree(U, p, d):
    if not isinstance(d, int) or isinstance(d, bool) or d < 0:
        return ("reject", False)
    t = d - p
    V = []
    for k in knots_of(U):
        m = mult(U, k) + t
        if m < 0:
            return ("reject", False)
        V += [k] * m
    if not wellformed(V, d) or V[0] != U[0] or V[-1] != U[-1]:
        return ("reject", False)
    return ("ok", V, d)


def union(U, p, V, q):
    """coarsest common refinement: degree max, each knot keeps the lower continuity order"""
    if U[0] != V[0] or U[-1] != V[-1]:
        return ("reject", True)
    d = max(p, q)
    out = []
    for k in sorted(set(U) | set(V)):
        m = max(mult(U, k) + d - p if k in U else 0, mult(V, k) + d - q if k in V else 0)
        out += [k] * m
    return ("ok", out, d)


def intersection(U, p, V, q):
    """for equal degrees: per-knot minimum multiplicity; for different degrees unspecified (None)"""
    if U[0] != V[0] or U[-1] != V[-1]:
        return ("reject", True)
    if p != q:
        return ("unspecified",)
    out = []
    for k in sorted(set(U) & set(V)):
        out += [k] * min(mult(U, k), mult(V, k))
    return ("ok", out, p)


def split(U, p, nodes):
    if not nodes_ok(nodes):
        return ("reject", False)
    nodes = [F(x) for x in nodes]
    if any(x < U[0] or x > U[-1] for x in nodes):
        return ("reject", True)
    cuts = sorted(set(nodes) | {U[0], U[-1]})
    if len(set(nodes)) == 0:
        return ("ok-value", [list(U)])
    out = []
    for a, b in zip(cuts[:-1], cuts[1:]):
        out.append([a] * (p + 1) + [k for k in U if a < k < b] + [b] * (p + 1))
    return ("ok-value", out)


def span(U, p, u):
    n = len(U) - p - 1
    if u < U[0] or u > U[-1]:
        return None
    if u == U[-1]:
        return n - 1
    return max(k for k in range(len(U) - 1) if U[k] <= u)


def queries(U, p):
    """query nodes: all knots, mid-spans, ends, outside"""
    ks = knots_of(U)
    out = list(ks) + [(a + b) / 2 for a, b in zip(ks[:-1], ks[1:])]
    out += [ks[0] - 1, ks[-1] + F(1, 2)]
    return out
