"""Reference B-spline semantics over Fraction.

Two independent formulations of N_{i,j}:
  * coxdeboor(U, i, j, u): the pointwise recursion (right-continuous, left limit at umax)
  * basis_polys(U, j, a, b): the recursion carried out on polynomials for one span [a, b]
and the denotation of a curve (U, P, W) as a piecewise rational function (class PW).
"""
from fractions import Fraction as F

from . import poly


# ---------------------------------------------------------------- knot vectors
def degree_of(U):
    p = 0
    while p + 1 < len(U) and U[p] == U[p + 1]:
        p += 1
    return p


def mult(U, u):
    return sum(1 for k in U if k == u)


def knots_of(U):
    return sorted(set(U))


def spans_of(U):
    ks = knots_of(U)
    return list(zip(ks[:-1], ks[1:]))


def npts_of(U, p=None):
    p = degree_of(U) if p is None else p
    return len(U) - p - 1


def wellformed(U, p=None):
    """clamped knot vector: sorted, ends repeated exactly p+1 times, interior mult <= p+1, npts > p"""
    U = list(U)
    if len(U) < 2:
        return False
    if any(U[i] > U[i + 1] for i in range(len(U) - 1)):
        return False
    if U[0] == U[-1]:
        return False
    if p is None:
        p = mult(U, U[0]) - 1
    if mult(U, U[0]) != p + 1 or mult(U, U[-1]) != p + 1:
        return False
    if len(U) - p - 1 <= p:
        return False
    return all(mult(U, k) <= p + 1 for k in set(U))


def span_index(U, p, u):
    """k with U[k] <= u < U[k+1], or npts-1 at umax"""
    n = len(U) - p - 1
    if u == U[-1]:
        return n - 1
    for k in range(p, n):
        if U[k] <= u < U[k + 1]:
            return k
    raise ValueError("outside")


def make_knotvector(p, a, b, interior):
    """interior: list of (knot, mult)"""
    U = [a] * (p + 1)
    for k, m in sorted(interior):
        U += [k] * m
    U += [b] * (p + 1)
    return U


# ---------------------------------------------------------------- basis functions
def coxdeboor(U, i, j, u):
    last = U[-1]
    if j == 0:
        if U[i] <= u < U[i + 1]:
            return F(1)
        if u == last and U[i] < U[i + 1] == last:
            return F(1)
        return F(0)
    a = F(0)
    if U[i + j] != U[i]:
        a = F(u - U[i]) / F(U[i + j] - U[i]) * coxdeboor(U, i, j - 1, u)
    b = F(0)
    if U[i + j + 1] != U[i + 1]:
        b = F(U[i + j + 1] - u) / F(U[i + j + 1] - U[i + 1]) * coxdeboor(U, i + 1, j - 1, u)
    return a + b


def coxdeboor_all(U, j, u):
    """[N_{i,j}(u)] for i in range(len(U)-j-1), iteratively (faster than the recursion)"""
    m = len(U)
    last = U[-1]
    N = []
    for i in range(m - 1):
        if U[i] <= u < U[i + 1] or (u == last and U[i] < U[i + 1] == last):
            N.append(F(1))
        else:
            N.append(F(0))
    for d in range(1, j + 1):
        M = []
        for i in range(m - d - 1):
            t = F(0)
            if U[i + d] != U[i] and N[i] != 0:
                t += F(u - U[i]) / F(U[i + d] - U[i]) * N[i]
            if U[i + d + 1] != U[i + 1] and N[i + 1] != 0:
                t += F(U[i + d + 1] - u) / F(U[i + d + 1] - U[i + 1]) * N[i + 1]
            M.append(t)
        N = M
    return N


def basis_polys(U, j, a, b):
    """polynomials of N_{i,j} restricted to the non-empty span [a,b] (must lie inside one knot span);
    list of length len(U)-j-1"""
    m = len(U)
    N = [poly.ONE if (U[i] <= a and b <= U[i + 1] and U[i] < U[i + 1]) else poly.ZERO for i in range(m - 1)]
    for d in range(1, j + 1):
        M = []
        for i in range(m - d - 1):
            t = poly.ZERO
            if U[i + d] != U[i] and N[i]:
                den = F(U[i + d] - U[i])
                t = poly.add(t, poly.mul((-F(U[i]) / den, 1 / den), N[i]))
            if U[i + d + 1] != U[i + 1] and N[i + 1]:
                den = F(U[i + d + 1] - U[i + 1])
                t = poly.add(t, poly.mul((F(U[i + d + 1]) / den, -1 / den), N[i + 1]))
            M.append(t)
        N = M
    return N


# ---------------------------------------------------------------- piecewise rational functions
def as_point(x):
    """-> (tuple of Fractions, is_scalar)"""
    try:
        return tuple(F(c) for c in x), False
    except TypeError:
        return (F(x),), True


class PW:
    """piecewise rational function on [a, b]: pieces (x, y, nums, den), nums = tuple of polys"""

    def __init__(self, pieces, scalar):
        self.pieces = pieces
        self.scalar = scalar

    @property
    def dim(self):
        return len(self.pieces[0][2])

    @property
    def a(self):
        return self.pieces[0][0]

    @property
    def b(self):
        return self.pieces[-1][1]

    def breaks(self):
        return [p[0] for p in self.pieces] + [self.pieces[-1][1]]

    def piece(self, x, y):
        for pc in self.pieces:
            if pc[0] <= x and y <= pc[1]:
                return pc
        raise KeyError((x, y))

    def is_polynomial(self):
        return all(len(pc[3]) == 1 for pc in self.pieces)

    def normalized(self):
        """divide by constant denominators (no-op for genuinely rational pieces)"""
        out = []
        for x, y, nums, den in self.pieces:
            if len(den) == 1 and den[0] != 1:
                nums = tuple(poly.scale(n, 1 / den[0]) for n in nums)
                den = poly.ONE
            out.append((x, y, nums, den))
        return PW(out, self.scalar)

    def refine(self, breaks):
        bs = sorted(set(self.breaks()) | set(k for k in breaks if self.a <= k <= self.b))
        out = []
        for x, y in zip(bs[:-1], bs[1:]):
            pc = self.piece(x, y)
            out.append((x, y, pc[2], pc[3]))
        return PW(out, self.scalar)

    def restrict(self, a, b):
        r = self.refine([a, b])
        return PW([pc for pc in r.pieces if a <= pc[0] and pc[1] <= b], self.scalar)

    def value(self, u, side=None):
        """value with the library convention (right-continuous, left limit at b) unless side given"""
        u = F(u)
        if not (self.a <= u <= self.b):
            raise ValueError("outside")
        chosen = None
        for pc in self.pieces:
            if side == "left":
                if pc[0] < u <= pc[1]:
                    chosen = pc
            else:
                if pc[0] <= u < pc[1]:
                    chosen = pc
        if chosen is None:
            chosen = self.pieces[-1] if side != "left" else self.pieces[0]
        d = poly.ev(chosen[3], u)
        vals = tuple(poly.ev(n, u) / d for n in chosen[2])
        return vals[0] if self.scalar else vals

    def same(self, other):
        if self.a != other.a or self.b != other.b or self.dim != other.dim:
            return False
        bs = sorted(set(self.breaks()) | set(other.breaks()))
        for x, y in zip(bs[:-1], bs[1:]):
            p1 = self.piece(x, y)
            p2 = other.piece(x, y)
            for n1, n2 in zip(p1[2], p2[2]):
                if poly.mul(n1, p2[3]) != poly.mul(n2, p1[3]):
                    return False
        return True

    def same_on(self, other, a, b):
        return self.restrict(a, b).same(other.restrict(a, b))

    # -- arithmetic (pointwise)
    def _zip(self, other):
        bs = sorted(set(self.breaks()) | set(other.breaks()))
        for x, y in zip(bs[:-1], bs[1:]):
            yield x, y, self.piece(x, y), other.piece(x, y)

    def add(self, other, sign=1):
        out = []
        for x, y, p1, p2 in self._zip(other):
            den = poly.mul(p1[3], p2[3])
            nums = tuple(
                poly.add(poly.mul(n1, p2[3]), poly.scale(poly.mul(n2, p1[3]), F(sign)))
                for n1, n2 in zip(p1[2], p2[2])
            )
            out.append((x, y, nums, den))
        return PW(out, self.scalar and other.scalar)

    def neg(self):
        return PW([(x, y, tuple(poly.scale(n, F(-1)) for n in nums), den) for x, y, nums, den in self.pieces], self.scalar)

    def mul(self, other):
        """scalar*scalar, scalar*vector or vector*scalar (componentwise by the scalar)"""
        out = []
        for x, y, p1, p2 in self._zip(other):
            den = poly.mul(p1[3], p2[3])
            if len(p1[2]) == 1:
                nums = tuple(poly.mul(p1[2][0], n2) for n2 in p2[2])
            elif len(p2[2]) == 1:
                nums = tuple(poly.mul(n1, p2[2][0]) for n1 in p1[2])
            else:
                raise ValueError("vector*vector")
            out.append((x, y, nums, den))
        return PW(out, self.scalar and other.scalar)

    def dot(self, other):
        out = []
        for x, y, p1, p2 in self._zip(other):
            den = poly.mul(p1[3], p2[3])
            s = poly.ZERO
            for n1, n2 in zip(p1[2], p2[2]):
                s = poly.add(s, poly.mul(n1, n2))
            out.append((x, y, (s,), den))
        return PW(out, True)

    def div(self, other):
        """self / other, other scalar-valued"""
        out = []
        for x, y, p1, p2 in self._zip(other):
            den = poly.mul(p1[3], p2[2][0])
            nums = tuple(poly.mul(n1, p2[3]) for n1 in p1[2])
            out.append((x, y, nums, den))
        return PW(out, self.scalar)

    def map_affine_coeff(self, s, t=None):
        """s*self + t (s scalar Fraction, t point or None)"""
        out = []
        for x, y, nums, den in self.pieces:
            nn = []
            for c, n in enumerate(nums):
                v = poly.scale(n, F(s))
                if t is not None:
                    tc = t[c] if isinstance(t, tuple) else t
                    v = poly.add(v, poly.scale(den, F(tc)))
                nn.append(v)
            out.append((x, y, tuple(nn), den))
        return PW(out, self.scalar)

    def derivative(self):
        out = []
        for x, y, nums, den in self.pieces:
            if len(den) == 1:
                out.append((x, y, tuple(poly.scale(poly.deriv(n), 1 / den[0]) for n in nums), poly.ONE))
            else:
                dd = poly.deriv(den)
                nn = tuple(poly.sub(poly.mul(poly.deriv(n), den), poly.mul(n, dd)) for n in nums)
                out.append((x, y, nn, poly.mul(den, den)))
        return PW(out, self.scalar)

    def integral(self):
        """exact integral of a piecewise polynomial function, per coordinate"""
        tot = [F(0)] * self.dim
        for x, y, nums, den in self.pieces:
            assert len(den) == 1
            for c, n in enumerate(nums):
                tot[c] += poly.integ(n, x, y) / den[0]
        return tot[0] if self.scalar else tuple(tot)

    def sq_dev(self, other):
        """per-coordinate integral of (self-other)^2, both piecewise polynomial"""
        tot = [F(0)] * self.dim
        for x, y, p1, p2 in self._zip(other):
            assert len(p1[3]) == 1 and len(p2[3]) == 1
            for c, (n1, n2) in enumerate(zip(p1[2], p2[2])):
                r = poly.sub(poly.scale(n1, 1 / p1[3][0]), poly.scale(n2, 1 / p2[3][0]))
                tot[c] += poly.integ(poly.mul(r, r), x, y)
        return tot

    def max_piece_degree(self):
        return max([poly.degree(n) for pc in self.pieces for n in pc[2]] + [0])


def denote(U, P, W=None, p=None):
    """denotation of the curve with knot vector U, control points P (scalars or tuples) and weights W"""
    U = [F(x) for x in U]
    p = degree_of(U) if p is None else p
    pts = [as_point(x) for x in P]
    scalar = all(s for _, s in pts)
    pts = [v for v, _ in pts]
    dim = len(pts[0])
    pieces = []
    for a, b in spans_of(U):
        N = basis_polys(U, p, a, b)
        nums = [poly.ZERO] * dim
        den = poly.ZERO
        for i, n in enumerate(N):
            if not n:
                continue
            w = F(1) if W is None else F(W[i])
            den = poly.add(den, poly.scale(n, w))
            for c in range(dim):
                nums[c] = poly.add(nums[c], poly.scale(n, w * pts[i][c]))
        pieces.append((a, b, tuple(nums), den))
    return PW(pieces, scalar)


def basis_function_pw(U, i, j, W=None):
    """N_{i,j} (or rational R_{i,j}) over U as a PW (scalar)"""
    U = [F(x) for x in U]
    pieces = []
    for a, b in spans_of(U):
        N = basis_polys(U, j, a, b)
        if W is None:
            pieces.append((a, b, (N[i],), poly.ONE))
        else:
            den = poly.ZERO
            for k, n in enumerate(N):
                den = poly.add(den, poly.scale(n, F(W[k])))
            pieces.append((a, b, (poly.scale(N[i], F(W[i])),), den))
    return PW(pieces, True)


def value(U, P, u, W=None, p=None):
    """pointwise definition sum_i R_i(u) P_i by the Cox-de Boor recursion (independent of denote)"""
    U = [F(x) for x in U]
    p = degree_of(U) if p is None else p
    N = coxdeboor_all(U, p, F(u))
    pts = [as_point(x) for x in P]
    scalar = all(s for _, s in pts)
    pts = [v for v, _ in pts]
    dim = len(pts[0])
    if W is None:
        vals = tuple(sum(n * pt[c] for n, pt in zip(N, pts)) for c in range(dim))
    else:
        d = sum(n * F(w) for n, w in zip(N, W))
        vals = tuple(sum(n * F(w) * pt[c] for n, w, pt in zip(N, W, pts)) / d for c in range(dim))
    return vals[0] if scalar else vals


def bernstein_positive(U, Wts):
    """sufficient exact test that the weight function sum w_i N_i has no zero: all weights > 0"""
    return all(F(w) > 0 for w in Wts)
