"""Exact numbers <-> JSON, type tags, conversions."""
from fractions import Fraction as F


def enc(x):
    """JSON-able encoding that round-trips ints, Fractions, floats, strings, None, bools, tuples, lists, dicts"""
    if x is None or isinstance(x, bool):
        return x
    if isinstance(x, int):
        return x
    if isinstance(x, F):
        return "F:%d/%d" % (x.numerator, x.denominator)
    if isinstance(x, float):
        return "f:" + repr(x)
    if isinstance(x, str):
        return "s:" + x
    if isinstance(x, tuple):
        return {"t": [enc(y) for y in x]}
    if isinstance(x, list):
        return [enc(y) for y in x]
    if isinstance(x, dict):
        return {"d": [[enc(k), enc(v)] for k, v in x.items()]}
    try:
        import numpy as np
        if isinstance(x, np.integer):
            return int(x)
        if isinstance(x, np.floating):
            return "f:" + repr(float(x))
        if isinstance(x, np.ndarray):
            return [enc(y) for y in x.tolist()]
    except ImportError:
        pass
    return "s:<" + type(x).__name__ + ":" + str(x)[:80] + ">"


def dec(x):
    if x is None or isinstance(x, (bool, int)):
        return x
    if isinstance(x, str):
        if x.startswith("F:"):
            p, q = x[2:].split("/")
            return F(int(p), int(q))
        if x.startswith("f:"):
            return float(x[2:])
        if x.startswith("s:"):
            return x[2:]
        raise ValueError(x)
    if isinstance(x, list):
        return [dec(y) for y in x]
    if isinstance(x, dict):
        if "t" in x:
            return tuple(dec(y) for y in x["t"])
        if "d" in x:
            return {dec(k): dec(v) for k, v in x["d"]}
    raise ValueError(x)


def show(x):
    """compact human-readable form for samples / messages"""
    if isinstance(x, F):
        return str(x)
    if isinstance(x, (list, tuple)):
        return "[" + ", ".join(show(y) for y in x) + "]"
    if isinstance(x, dict):
        return "{" + ", ".join(f"{k}: {show(v)}" for k, v in x.items()) + "}"
    return repr(x) if isinstance(x, (str, float)) else str(x)
