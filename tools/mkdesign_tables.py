#!/usr/bin/env python3
"""Splices measured tables into DESIGN.md: coverage (from evidence/*.json) and seeded changes (from seeded/*/meta.json)."""
import glob
import json
import os
import re

ROOT = os.path.dirname(os.path.dirname(os.path.abspath(__file__)))
s = open(os.path.join(ROOT, "DESIGN.md")).read()


def splice(name, body):
    global s
    pat = re.compile(r"(<!-- TABLE:%s -->\n).*?(<!-- /TABLE:%s -->)" % (name, name), re.S)
    s = pat.sub(lambda m: m.group(1) + body + m.group(2), s)


rows = ["| check | tier | cases | states | transitions | non-trivial | exhaustive | wall (s) | violations / known |", "|---|---|---|---|---|---|---|---|---|"]
for f in sorted(glob.glob(os.path.join(ROOT, "evidence", "C*.json"))):
    e = json.load(open(f))
    c = e["coverage"]
    rows.append(f"| {e['property_id']} | {e['tier']} | {c['evaluations']} | {c['states']} | {c['transitions']} | {c['distinct_nontrivial']} | "
                f"{'yes' if c['exhaustive'] else 'capped'} | {e['wall_s']:.0f} | {e['violations']} / {e.get('known_findings', 0)} |")
splice("coverage", "\n".join(rows) + "\n")

rows = ["| seeded change | breaks | needs | suite with change | caught by (quick tier) | first counterexample |", "|---|---|---|---|---|---|"]
for f in sorted(glob.glob(os.path.join(ROOT, "seeded", "*", "meta.json"))):
    m = json.load(open(f))
    sid = os.path.basename(os.path.dirname(f))
    det = ", ".join(m.get("detected_by", [])) or "**missed**"
    first = ""
    for cid in m.get("detected_by", []):
        first = m["checks"][cid]["first"][:140].replace("|", "\\|")
        break
    rows.append(f"| {sid} | {m.get('property', '')} | {m.get('needs', '')[:160]} | {m.get('suite_with_change', '')[:40]} | {det} | {first} |")
splice("seeded", "\n".join(rows) + "\n")
open(os.path.join(ROOT, "DESIGN.md"), "w").write(s)
print("tables updated")
