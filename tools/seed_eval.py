#!/usr/bin/env python3
"""tools/seed_eval.py <seed dir with patch.diff, demo.py> <property id> [other check ids...]
Applies the seeded change to /repo, confirms that the repository's suite still passes and that the demonstration fails,
runs the listed checks (quick tier) against /repo itself, reverts /repo, confirms that the demonstration passes again,
and writes/updates meta.json in the seed directory."""
import json
import os
import subprocess
import sys
import time

seed, pid, *others = sys.argv[1:]
seed = os.path.abspath(seed)
patch = os.path.join(seed, "patch.diff")
demo = os.path.join(seed, "demo.py")
ENV = dict(os.environ, PYTHONPATH="/repo/src", PYTHONHASHSEED="0")


def sh(cmd, **kw):
    return subprocess.run(cmd, shell=True, capture_output=True, text=True, **kw)


def clean():
    return sh("git -C /repo status --porcelain").stdout.strip() == ""


assert clean(), "/repo has uncommitted changes"
meta = {}
mpath = os.path.join(seed, "meta.json")
if os.path.exists(mpath):
    meta = json.load(open(mpath))
try:
    r = sh(f"git -C /repo apply {patch}")
    assert r.returncode == 0, "patch does not apply: " + r.stderr
    t = sh("cd /repo && /venv/bin/python -m pytest -q -p no:cacheprovider --timeout=900 --deselect "
           "tests/test_knotspace.py::TestGenerator::test_clstype 2>&1 | grep -E 'passed|failed' | tail -1", env=ENV)
    suite = t.stdout.strip()
    d = sh(f"cd /repo && /venv/bin/python {demo}", env=ENV)
    demo_with = d.returncode
    results = {}
    for cid in [pid] + others:
        t0 = time.time()
        c = sh(f"cd /verif && ./run {cid} --tier quick --no-evidence")
        lines = [ln for ln in c.stdout.splitlines() if ln.startswith("VIOLATION")]
        first = ""
        for i, ln in enumerate(c.stdout.splitlines()):
            if ln.startswith("VIOLATION"):
                first = c.stdout.splitlines()[i + 1].strip()[:400] if i + 1 < len(c.stdout.splitlines()) else ""
                break
        results[cid] = {"exit": c.returncode, "violation_lines": len(lines), "first": first, "wall_s": round(time.time() - t0, 1)}
finally:
    sh("git -C /repo checkout -- .")
assert clean()
d2 = sh(f"cd /repo && /venv/bin/python {demo}", env=ENV)
meta.update({"property": pid, "suite_with_change": suite, "demo_exit_with_change": demo_with, "demo_exit_without_change": d2.returncode,
             "checks": results, "detected_by": [c for c, r in results.items() if r["exit"] == 1],
             "ran": f"git -C /repo apply patch.diff; repo suite; demo.py; ./run {' '.join([pid] + others)} --tier quick; git -C /repo checkout -- ."})
json.dump(meta, open(mpath, "w"), indent=1)
print(json.dumps(meta, indent=1))
