#!/bin/sh
# tools/runall.sh [tier] [ids...]: run the claimed checks, one summary line each
cd "$(dirname "$0")/.." || exit 2
TIER=${1:-quick}; shift
IDS=${*:-$(python3 -c "import json;print(' '.join(c['property_id'] for c in json.load(open('MANIFEST.json'))['checks']))")}
for id in $IDS; do
  s=$(date +%s)
  out=$(./run "$id" --tier "$TIER" 2>&1); rc=$?
  e=$(date +%s)
  echo "$id rc=$rc $((e-s))s $(echo "$out" | grep -c '^VIOLATION') violation-lines $(echo "$out" | grep -c '^KNOWN-FINDING') known | $(echo "$out" | tail -1 | cut -c1-160)"
done
