#!/usr/bin/env python3
"""Regenerates MANIFEST.json from the table below (kept in one place so that it is always valid)."""
import json
import os

ROOT = os.path.dirname(os.path.dirname(os.path.abspath(__file__)))

# id -> (design section, technique, level text, level note)
CLAIMED = {}
NOT_YET = {}


def claim(pid, technique, text, note):
    CLAIMED[pid] = (technique, text, note)


exec(open(os.path.join(ROOT, "tools", "claims.py")).read())

props = [json.loads(l) for l in open(os.path.join(ROOT, "properties.jsonl"))]
checks = []
na = []
for p in props:
    pid = p["id"]
    if pid in CLAIMED:
        technique, text, note = CLAIMED[pid]
        checks.append({
            "property_id": pid,
            "quick_cmd": f"./run {pid} --tier quick",
            "thorough_cmd": f"./run {pid} --tier thorough",
            "evidence_file": f"/verif/evidence/{pid}.json",
            "replay_cmd_template": f"./run {pid} --replay {{path}}",
            "engine": "vf",
            "level_claimed": {"category": "model_checking", "text": text, "design_ref": f"DESIGN.md section 5, {pid}"},
            "level_note": note,
            "technique": technique,
        })
    else:
        na.append({"property_id": pid, "reason": NOT_YET.get(pid, "check not built yet (work in progress); see DESIGN.md section 5 for the planned exploration")})
man = {
    "version": 1,
    "setup_cmd": "/venv/bin/python -m vf.ref.selftest",
    "hooks": {
        "guard": "COMPMEC_NURBS_VERIF",
        "enable": "no source hooks are needed: the checks import /repo/src directly (the .pth file in /venv points at the working tree) and drive the public API; environment control (memo tables, random source, evaluation horizon) is done harness-side in vf/engine/env.py",
        "baseline_off_cmd": "cd /repo && /venv/bin/python -m pytest -ra -q -p no:cacheprovider --timeout=900 --continue-on-collection-errors",
        "source_commits": [],
        "add_only": True,
    },
    "engines": [{
        "name": "vf",
        "path": "/verif/vf",
        "serves_properties": sorted(CLAIMED),
        "kind_free_text": "hand-written bounded-exhaustive explorer for Python: explicit-state BFS over operation histories and complete enumeration of finite product alphabets, executed on the real implementation in lockstep with an exact Fraction reference model (vf/ref)",
    }],
    "checks": checks,
    "not_applicable": na,
    "notes": "Exit codes: 0 held (KNOWN-FINDING lines allowed), 1 unlisted violation, 2 the check itself is broken. VERIF_SEED selects which additional knot-position alphabet is enumerated in the quick tier; VERIF_REPO=<dir> runs the same checks against a scratch copy.",
}
with open(os.path.join(ROOT, "MANIFEST.json"), "w") as f:
    json.dump(man, f, indent=1)
print("claimed", sorted(CLAIMED), "not claimed", [x["property_id"] for x in na])
