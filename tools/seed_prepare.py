#!/usr/bin/env python3
"""tools/seed_prepare.py <scratch dir> [property ids...]
Prepares one scratch worktree of /repo HEAD per property under <scratch dir>/<id> with _seed/property.txt and _seed/prompt.txt
(the prompt of tools/seed_prompt.tmpl; EXTRA = the mechanisms already kept under seeded/ for that property, to be avoided,
plus one mechanism class to look at first, rotated over the properties). The sub-agents see nothing from /verif."""
import glob
import json
import os
import subprocess
import sys

HINTS = [
    "optional or keyword arguments given NON-default values (explicit tolerances other than the default, explicit nodes, "
    "nnodes, method names, explicit degree) - the path taken only when the caller passes the argument",
    "vectorised or unusual argument containers: numpy arrays / tuples / nested sequences of parameters, 0-d arrays, "
    "negative indices and slices, generators, a single-element sequence versus a scalar",
    "the caller's own containers: a list or numpy array passed in by the caller that is retained, shared between two "
    "results, or modified, so that the breakage shows only when the caller touches or re-uses it afterwards",
    "rational-only behaviour: curves with weights (equal weights, weights set and later removed with None, weights far from "
    "1, negative-free but very uneven weights), where the polynomial path stays correct",
    "degenerate or extreme sizes: degree 0, a single span, npts == degree + 1, every interior knot at full multiplicity, "
    "an operation repeated many times on the same object, or an empty request (no nodes / zero times)",
]

root = sys.argv[1]
ids = sys.argv[2:] or [f"C{i:02d}" for i in range(1, 21)]
props = {json.loads(l)["id"]: json.loads(l) for l in open("/verif/properties.jsonl")}
tmpl = open("/verif/tools/seed_prompt.tmpl").read()
os.makedirs(root, exist_ok=True)
for k, pid in enumerate(ids):
    d = os.path.join(root, pid)
    subprocess.run(["git", "-C", "/repo", "worktree", "add", "-q", "--detach", d, "HEAD"], check=True)
    os.makedirs(os.path.join(d, "_seed"))
    p = props[pid]
    text = f"{p['title']}\n\n{p['statement']}\n\nQuantified over: {p['quantifier']['text']}"
    seen = []
    for m in sorted(glob.glob(f"/verif/seeded/{pid}-*/meta.json")):
        n = json.load(open(m)).get("needs")
        if n:
            seen.append("- " + n)
    extra = ("Mechanisms that have ALREADY been explored for this property - do NOT reuse any of them or a close variant "
             "(same function and same kind of trigger):\n" + "\n".join(seen) + "\n\n"
             "Look FIRST for a change of this kind (fall back to something else only if you find nothing suitable): "
             + HINTS[(k + int(os.environ.get("SEED_ROT", "0"))) % len(HINTS)] + "\n")
    open(os.path.join(d, "_seed", "property.txt"), "w").write(text + "\n")
    open(os.path.join(d, "_seed", "prompt.txt"), "w").write(tmpl.replace("DIR", d).replace("PROPERTY", text).replace("EXTRA", extra))
    print(d)
