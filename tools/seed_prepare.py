#!/usr/bin/env python3
"""tools/seed_prepare.py <scratch dir> [property ids...]
Prepares one scratch worktree of /repo HEAD per property under <scratch dir>/<id> with _seed/property.txt and _seed/prompt.txt
(the prompt of tools/seed_prompt.tmpl; EXTRA = the mechanisms already kept under seeded/ for that property, to be avoided,
plus one mechanism class to look at first, rotated over the properties). The sub-agents see nothing from /verif."""
import glob
import json
import os
import subprocess
import sys

HINTS = [
    # ninth wave (the lists of earlier waves are in DESIGN.md section 7)
    "derived attributes and queries read AFTER an operation (knots, npts, limits, degree, span, mult, str(), len(), "
    "iteration, indexing, copy()) that go stale or disagree with the element list only after a particular operation",
    "the kind of failure for one specific class of invalid argument: the wrong exception type, an exception raised only after "
    "part of the state was changed, or an invalid request that is silently accepted - for ONE narrow class of arguments",
    "a comparison against a tolerance or a boundary that is off exactly AT the boundary (< versus <=, a knot equal to a "
    "node, a multiplicity equal to degree or degree+1, a parameter equal to an interior knot or to umax)",
    "an asymmetry between the two operands of a binary operation or between two orders of the same operations "
    "(A op B versus B op A, insert-then-elevate versus elevate-then-insert, left piece versus right piece)",
    "objects obtained by copy / deepcopy / slicing / iteration of other objects (a copied KnotVector or Curve, a piece "
    "returned by split, a result of fraction()) that are subtly incomplete or still tied to their source",
]

root = sys.argv[1]
ids = sys.argv[2:] or [f"C{i:02d}" for i in range(1, 21)]
props = {json.loads(l)["id"]: json.loads(l) for l in open("/verif/properties.jsonl")}
tmpl = open("/verif/tools/seed_prompt.tmpl").read()
os.makedirs(root, exist_ok=True)
for k, pid in enumerate(ids):
    d = os.path.join(root, pid)
    subprocess.run(["git", "-C", "/repo", "worktree", "add", "-q", "--detach", d, "HEAD"], check=True)
    os.makedirs(os.path.join(d, "_seed"))
    p = props[pid]
    text = f"{p['title']}\n\n{p['statement']}\n\nQuantified over: {p['quantifier']['text']}"
    seen = []
    for m in sorted(glob.glob(f"/verif/seeded/{pid}-*/meta.json")):
        n = json.load(open(m)).get("needs")
        if n:
            seen.append("- " + n)
    extra = ("Mechanisms that have ALREADY been explored for this property - do NOT reuse any of them or a close variant "
             "(same function and same kind of trigger):\n" + "\n".join(seen) + "\n\n"
             "Look FIRST for a change of this kind (fall back to something else only if you find nothing suitable): "
             + HINTS[(k + int(os.environ.get("SEED_ROT", "0"))) % len(HINTS)] + "\n")
    open(os.path.join(d, "_seed", "property.txt"), "w").write(text + "\n")
    open(os.path.join(d, "_seed", "prompt.txt"), "w").write(tmpl.replace("DIR", d).replace("PROPERTY", text).replace("EXTRA", extra))
    print(d)
