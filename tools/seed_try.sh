#!/bin/sh
# tools/seed_try.sh <seed dir> <check id> [tier]: run a check against a scratch worktree of /repo HEAD with the seed applied
# (quick iteration while /repo itself must stay untouched; the recorded results come from tools/seed_eval.py)
S=$(cd "$1" && pwd); C=$2; T=${3:-quick}
D=$(mktemp -d /tmp/vfwt.XXXXXX)
git -C /repo worktree add -q --detach "$D/wt" HEAD || exit 2
git -C "$D/wt" apply "$S/patch.diff" || { git -C /repo worktree remove --force "$D/wt"; exit 2; }
cd /verif && VERIF_REPO="$D/wt" ./run "$C" --tier "$T" --no-evidence 2>&1 | grep -A1 "^VIOLATION" | grep "class=" | cut -c1-420 | head -6
cd /verif && VERIF_REPO="$D/wt" ./run "$C" --tier "$T" --no-evidence >/dev/null 2>&1; echo "exit=$?"
git -C /repo worktree remove --force "$D/wt"; rm -rf "$D"
