#!/bin/sh
# runs the repository's pinned suite in the given checkout (default /repo); prints the summary line
D=${1:-/repo}
cd "$D" && PYTHONPATH="$D/src" /venv/bin/python -m pytest -q -p no:cacheprovider --timeout=900 --deselect tests/test_knotspace.py::TestGenerator::test_clstype 2>&1 | grep -E "passed|failed|error|FAILED" | tail -8
