#!/bin/sh
# tools/at_rev.sh <git rev of /repo> <check id> [extra runner args]: run a check against a scratch worktree of /repo
REV=$1; shift
D=$(mktemp -d /tmp/vfwt.XXXXXX)
git -C /repo worktree add -q --detach "$D/wt" "$REV" || exit 2
cd /verif && VERIF_REPO="$D/wt" ./run "$@" --no-evidence
rc=$?
git -C /repo worktree remove --force "$D/wt"; rm -rf "$D"
exit $rc
